"""Replay of a recorded C09 / C10 failing history in a fresh interpreter.
argv: path-to-replay-json.  Prints one JSON document {reproduced, outcomes, history_text}."""
import json, sys
from c09lib import *

doc = json.load(open(sys.argv[1]))
h = doc.get("history") or doc.get("input", {}).get("history")
if not h:
    print(json.dumps(dict(reproduced=None, note="the replay file records an obligation, not a history")))
    sys.exit(0)
can = canonical()
oc = observe(h, can)
viol = (c10_violations if doc.get("property") == "C10" else c09_violations)(h, oc, can)
print(json.dumps(dict(reproduced=any(i == len(h) - 1 for i, _ in viol), outcomes=oc,
                      history_text=[text_event(e) for e in h])))
