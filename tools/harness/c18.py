"""C18 harness: biomolecule sequences are the sum of their residues.

Calls the real library (fasta.Sequence, fasta.CODE_TABLES, formulas.formula, fasta.read_fasta,
Sequence.load / loadall) on: every table entry, every single code, random code strings (length 0..maxlen,
all codes of the three tables including ambiguity codes, spaces, '*' and a tail), permutations of a
multiset, the three formula prefixes, strings with unknown codes, generated FASTA files (multi-record,
blank lines, wrapped sequences, junk before the first header, trailing white space, every extension
`load` understands) written to a scratch directory under /tmp that is removed afterwards.

Prints one JSON document: `cases` (Coq terms of type C18Check.c18case), `meta`, `stats` and
`direct_fails` = failing inputs of the property's own statement evaluated on the implementation alone:
additivity (sequence vs the sum of its single-residue sequences), permutation invariance, spaces and '*',
ambiguity codes vs the IUPAC member lists, density = mass / volume, prefix vs class, FASTA round trip and
typing by extension, and the plain residue rows vs a frozen reference copy (Perkins 1985 as shipped)."""
import json, os, sys, random, shutil, tempfile, math
from pyenc import enc, cstr, err_kind, attempt
from fcommon import struct_term, atom_key
import periodictable
from periodictable import fasta
from periodictable.formulas import formula
from periodictable.constants import avogadro_number

seed, nseq, maxlen = int(sys.argv[1]), int(sys.argv[2]), int(sys.argv[3])
rng = random.Random(seed * 104729 + 18)

AA_PLAIN, AA_AMBIG = "ACDEFGHIKLMNPQRSTVWY", "BJZX-"
NA_PLAIN, NA_AMBIG = "ACGTU", "RYKMSWBDHVNX-"
ALPHA = {"aa": (AA_PLAIN, AA_AMBIG), "dna": (NA_PLAIN, NA_AMBIG), "rna": (NA_PLAIN, NA_AMBIG)}
TYPES = ["aa", "dna", "rna"]

# what each ambiguity code stands for (IUPAC-IUB), independent of the source's member lists
IUPAC = {
    "aa": {"B": "DN", "J": "LI", "Z": "EQ", "X": AA_PLAIN, "-": ""},
    "dna": {"U": "T", "R": "AG", "Y": "CT", "K": "GT", "M": "AC", "S": "CG", "W": "AT", "B": "CGT", "D": "AGT",
            "H": "ACT", "V": "ACG", "N": "ACGT", "X": "", "-": ""},
}
IUPAC["rna"] = IUPAC["dna"]

# frozen copy of the plain residue rows (Perkins 1985, as shipped in periodictable 1.6.1):
# cell volume, charge, atoms of the labile formula
REFERENCE = json.loads('''{"aa": {"A": [91.5, 0, {"C": 3, "H": 4, "H[1]": 1, "N": 1, "O": 1}], "C": [105.6, 0, {"C": 3, "H": 3, "H[1]": 1, "N": 1, "O": 1, "S": 1}], "D": [124.5, -1, {"C": 4, "H": 3, "H[1]": 1, "N": 1, "O": 3}], "E": [155.1, -1, {"C": 5, "H": 5, "H[1]": 1, "N": 1, "O": 3}], "F": [203.4, 0, {"C": 9, "H": 8, "H[1]": 1, "N": 1, "O": 1}], "G": [66.4, 0, {"C": 2, "H": 2, "H[1]": 1, "N": 1, "O": 1}], "H": [167.3, 1, {"C": 6, "H": 5, "H[1]": 3, "N": 3, "O": 1}], "I": [168.8, 0, {"C": 6, "H": 10, "H[1]": 1, "N": 1, "O": 1}], "K": [171.3, 1, {"C": 6, "H": 9, "H[1]": 4, "N": 2, "O": 1}], "L": [168.8, 0, {"C": 6, "H": 10, "H[1]": 1, "N": 1, "O": 1}], "M": [170.8, 0, {"C": 5, "H": 8, "H[1]": 1, "N": 1, "O": 1, "S": 1}], "N": [135.2, 0, {"C": 4, "H": 3, "H[1]": 3, "N": 2, "O": 2}], "P": [129.3, 0, {"C": 5, "H": 7, "N": 1, "O": 1}], "Q": [161.1, 0, {"C": 5, "H": 5, "H[1]": 3, "N": 2, "O": 2}], "R": [202.1, 1, {"C": 6, "H": 7, "H[1]": 6, "N": 4, "O": 1}], "S": [99.1, 0, {"C": 3, "H": 3, "H[1]": 2, "N": 1, "O": 2}], "T": [122.1, 0, {"C": 4, "H": 5, "H[1]": 2, "N": 1, "O": 2}], "V": [141.7, 0, {"C": 5, "H": 8, "H[1]": 1, "N": 1, "O": 1}], "W": [237.6, 0, {"C": 11, "H": 8, "H[1]": 2, "N": 2, "O": 1}], "Y": [203.6, 0, {"C": 9, "H": 7, "H[1]": 2, "N": 1, "O": 2}]}, "dna": {"A": [289.0, 0, {"C": 10, "H": 9, "H[1]": 2, "N": 5, "Na": 1, "O": 5, "P": 1}], "C": [278.0, 0, {"C": 9, "H": 9, "H[1]": 2, "N": 3, "Na": 1, "O": 6, "P": 1}], "G": [294.0, 0, {"C": 10, "H": 8, "H[1]": 3, "N": 5, "Na": 1, "O": 6, "P": 1}], "T": [301.0, 0, {"C": 10, "H": 11, "H[1]": 1, "N": 2, "Na": 1, "O": 7, "P": 1}]}, "rna": {"A": [299.0, 0, {"C": 10, "H": 8, "H[1]": 3, "N": 5, "Na": 1, "O": 6, "P": 1}], "C": [288.0, 0, {"C": 9, "H": 8, "H[1]": 3, "N": 3, "Na": 1, "O": 7, "P": 1}], "G": [304.0, 0, {"C": 10, "H": 7, "H[1]": 4, "N": 5, "Na": 1, "O": 7, "P": 1}], "T": [284.0, 0, {"C": 9, "H": 8, "H[1]": 2, "N": 2, "Na": 1, "O": 8, "P": 1}]}}''')

cases, meta, direct = [], [], []
stats = dict(table=0, other=0, single=0, random=0, permuted=0, prefix=0, invalid=0, fasta_files=0, fasta_records=0,
             guess=0, residues=0, maxlen=0, with_spaces=0, with_star=0, with_ambiguity=0, codes_seen={})


def fail(sig, what, **inp):
    direct.append(dict(signature=sig, what=what, input=inp))


# ------------------------------------------------------------------ observation
def mol_term(m):
    """Coq term of type molobs for a Molecule / Sequence (or for the exception raised building it)"""
    if isinstance(m, BaseException):
        return "(ME %s)" % err_kind(m)
    return "(MO %s %s %s %s %s %s %s %s %s %s %s)" % (
        enc(m.name), cstr(getattr(m, "sequence", "")), enc(m.cell_volume), enc(m.charge), enc(m.mass), enc(m.Dmass),
        enc(m.labile_formula.density), enc(m.natural_formula.density), enc(attempt(lambda: m.density)),
        struct_term(m.labile_formula.structure), struct_term(m.natural_formula.structure))


def make(name, s, ty):
    try:
        return fasta.Sequence(name, s, type=ty)
    except Exception as e:  # noqa
        return e


def optstr(t):
    return "None" if t is None else "(Some %s)" % cstr(t)


def atoms_of(f):
    return {atom_key(a): float(n) for a, n in f.atoms.items()}


def clean(s):
    return s.split("*", 1)[0].replace(" ", "")


def close(a, b, scale=None, tol=1e-10):
    sc = max(abs(a), abs(b)) if scale is None else scale
    return abs(a - b) <= tol * sc


def same_molecule(a, b, tol=1e-10):
    """which observables of two Molecules differ (beyond float re-association)"""
    out = []
    for k in ("cell_volume", "charge", "mass", "Dmass"):
        x, y = getattr(a, k), getattr(b, k)
        if not close(x, y, scale=max(abs(x), abs(y), 1.0) if k == "charge" else None, tol=tol):
            out.append(k)
    fa, fb = atoms_of(a.labile_formula), atoms_of(b.labile_formula)
    if list(fa) != list(fb) or any(not close(fa[k], fb[k], tol=tol) for k in fa):
        out.append("labile_formula")
    da, db = a.natural_formula.density, b.natural_formula.density
    if not close(da, db, tol=tol):
        out.append("natural_density")
    da, db = getattr(a, "density", None), getattr(b, "density", None)
    if (da is None) != (db is None) or (da is not None and not close(da, db, tol=tol)):
        out.append("density")
    return out


# ------------------------------------------------------------------ single residues (for additivity)
SINGLE = {}


def single(ty, c):
    k = (ty, c)
    if k not in SINGLE:
        SINGLE[k] = fasta.Sequence("r", c, type=ty)
    return SINGLE[k]


def check_additive(ty, s, seq):
    """the property's own statement on the implementation: seq vs the sum of its single-residue sequences"""
    codes = clean(s)
    parts = [single(ty, c) for c in codes]
    for k in ("cell_volume", "charge", "mass", "Dmass"):
        terms = [getattr(p, k) for p in parts]
        tot, sc = math.fsum(terms), math.fsum(abs(t) for t in terms)
        if not close(getattr(seq, k), tot, scale=max(sc, 1e-300) if sc else 0.0):
            fail("C18:additivity:%s:%s" % (ty, k),
                 "Sequence(%r, type=%r).%s = %r but the sum over its residues is %r" % (short(s), ty, k, getattr(seq, k), tot),
                 type=ty, sequence=s, observable=k)
            return
    want = {}
    for p in parts:
        for a, n in atoms_of(p.labile_formula).items():
            want[a] = want.get(a, 0.0) + n
    got = atoms_of(seq.labile_formula)
    want = {a: n for a, n in want.items() if n != 0}
    if set(got) != set(want) or any(not close(got[a], want[a]) for a in got):
        fail("C18:additivity:%s:atoms" % ty,
             "Sequence(%r, type=%r).labile_formula.atoms differs from the sum over its residues" % (short(s), ty),
             type=ty, sequence=s, observable="atoms")
        return
    v, m = seq.cell_volume, seq.mass
    d = seq.natural_formula.density
    expect = m / avogadro_number / v * 1e24 if v > 0 else 0
    if not close(d, expect):
        fail("C18:density:%s" % ty, "Sequence(%r, type=%r): natural density %r is not mass/(N_A V 1e-24) = %r"
             % (short(s), ty, d, expect), type=ty, sequence=s)
    elif hasattr(seq, "density") and not close(seq.density, expect):
        fail("C18:density-attribute:value", "Sequence(%r, type=%r).density = %r is not mass/(N_A V 1e-24) = %r"
             % (short(s), ty, seq.density, expect), type=ty, sequence=s, observable="density")


def short(s):
    return s if len(s) <= 60 else s[:40] + "...(%d chars)" % len(s)


# ------------------------------------------------------------------ generation of code strings
def random_codes(ty, n, mode):
    plain, amb = ALPHA[ty]
    if mode == "plain":
        alpha = plain
    elif mode == "ambiguous":
        alpha = amb + plain[:3]
    else:
        alpha = plain + amb
    if mode == "realistic":       # long sequences: mostly plain codes, a few ambiguity codes
        return "".join(rng.choice(amb) if rng.random() < 0.03 else rng.choice(plain) for _ in range(n))
    return "".join(rng.choice(alpha) for _ in range(n))


def pick_len():
    r = rng.random()
    if r < 0.06:
        return 0
    if r < 0.45:
        return rng.randint(1, 30)
    if r < 0.75:
        return rng.randint(31, 300)
    if r < 0.92:
        return rng.randint(301, min(1000, maxlen))
    return rng.randint(min(1001, maxlen), maxlen)


def decorate(codes, ty):
    """insert spaces, append '*' and a tail (valid or not) — none of which may change the result"""
    s = codes
    if rng.random() < 0.4 and s:
        out = []
        for ch in s:
            if rng.random() < 0.08:
                out.append(" " * rng.randint(1, 3))
            out.append(ch)
        s = "".join(out) + (" " if rng.random() < 0.3 else "")
        stats["with_spaces"] += 1
    if rng.random() < 0.3:
        tail = rng.choice(["", "*", " ", random_codes(ty, rng.randint(1, 20), "all"), "not a code 123 *", "zz*AC"])
        s = s + "*" + tail
        stats["with_star"] += 1
    return s


def add_seq(kind, ty, s, name="n"):
    seq = make(name, s, ty)
    cases.append("(CSeq %s %s %s %s)" % (cstr(ty), cstr(name), cstr(s), mol_term(seq)))
    meta.append([kind, ty, short(s), len(clean(s))])
    if not isinstance(seq, BaseException):
        n = len(clean(s))
        stats["residues"] += n
        stats["maxlen"] = max(stats["maxlen"], n)
        for c in set(clean(s)):
            stats["codes_seen"][ty + ":" + c] = 1
        if any(c in ALPHA[ty][1] for c in clean(s)):
            stats["with_ambiguity"] += 1
    return seq


# ------------------------------------------------------------------ 1. table entries, reference rows, ambiguity codes
for ty in TYPES:
    tab = fasta.CODE_TABLES[ty]
    for code, m in tab.items():
        cases.append("(CTable %s %s %s)" % (cstr(ty), cstr(code), mol_term(m)))
        meta.append(["table", ty, code, 1])
        stats["table"] += 1
    # the documented code set
    want = set(ALPHA[ty][0] + ALPHA[ty][1])
    if set(tab) != want:
        fail("C18:code-set:%s" % ty, "CODE_TABLES[%r] has codes %s, expected %s" % (ty, sorted(tab), sorted(want)),
             type=ty)
    # plain rows vs the frozen reference
    for code, (v, q, atoms) in REFERENCE[ty].items():
        m = tab.get(code)
        if m is None:
            continue
        got = {a.symbol + ("[%d]" % a.isotope if hasattr(a, "isotope") and a.symbol not in ("D", "T") else ""): n
               for a, n in m.labile_formula.atoms.items()}
        for k, x, y in (("cell_volume", m.cell_volume, v), ("charge", m.charge, q), ("formula", got, atoms)):
            if x != y:
                fail("C18:residue-data:%s:%s:%s" % (ty, code, k),
                     "Sequence('x', %r, type=%r): the %s of residue %s is %r, the reference row (Perkins 1985, as shipped "
                     "in 1.6.1) has %r" % (code, ty, k, code, x, y), type=ty, sequence=code, observable=k)
    # ambiguity codes: equal-weight average of what they stand for
    for code, members in IUPAC[ty].items():
        m = tab.get(code)
        if m is None or any(c not in tab for c in members):
            continue
        ms = [tab[c] for c in members]
        n = len(ms)
        avg = lambda xs: (math.fsum(xs) / n if n else 0)
        bad = None
        if not close(m.cell_volume, avg([p.cell_volume for p in ms])):
            bad = "cell_volume"
        elif not close(m.charge, avg([p.charge for p in ms]), scale=1.0):
            bad = "charge"
        else:
            want = {}
            for p in ms:
                for a, k in atoms_of(p.labile_formula).items():
                    want[a] = want.get(a, 0.0) + k / n
            got = atoms_of(m.labile_formula)
            if set(got) != set(want) or any(not close(got[a], want[a]) for a in got):
                bad = "atoms"
        if bad:
            fail("C18:ambiguity:%s:%s" % (ty, code),
                 "Sequence('x', %r, type=%r): the %s of ambiguity code %s is not the equal-weight average of %s"
                 % (code, ty, bad, code, "/".join(members) or "nothing"), type=ty, sequence=code, observable=bad)

# the documented *density* attribute of a Molecule ("the estimated molecule density")
for ty, s0 in (("aa", "ACDK"), ("dna", "ACGT"), ("rna", "ACGU")):
    probe = fasta.Sequence("probe", s0, type=ty)
    expect = probe.mass / avogadro_number / probe.cell_volume * 1e24
    try:
        d = probe.density
    except AttributeError as e:
        fail("C18:density-attribute",
             "fasta.Sequence('probe', %r, type=%r).density raises AttributeError: the Molecule docstring lists *density* "
             "(\"the estimated molecule density\") among the attributes and __init__ takes a density argument, but no "
             "density attribute is ever set; mass/(N_A V 1e-24) = %r" % (s0, ty, expect), type=ty, sequence=s0,
             observable="density")
    else:
        if not close(d, expect):
            fail("C18:density-attribute:value", "fasta.Sequence('probe', %r, type=%r).density = %r is not mass/(N_A V 1e-24) = %r"
                 % (s0, ty, d, expect), type=ty, sequence=s0, observable="density")

for tname in ("NUCLEIC_ACID_COMPONENTS", "CARBOHYDRATE_RESIDUES", "LIPIDS"):
    for name, m in getattr(fasta, tname).items():
        cases.append("(COther %s %s %s)" % (cstr(tname), cstr(name), mol_term(m)))
        meta.append(["other", tname, name, 1])
        stats["other"] += 1

# ------------------------------------------------------------------ 2. every single code
for ty in TYPES:
    for c in ALPHA[ty][0] + ALPHA[ty][1]:
        seq = add_seq("single", ty, c)
        stats["single"] += 1
        if not isinstance(seq, BaseException):
            tab = fasta.CODE_TABLES[ty]
            if c in tab and same_molecule(seq, tab[c]):
                fail("C18:single:%s:%s" % (ty, c), "Sequence('x', %r, type=%r) differs from CODE_TABLES[%r][%r] in %s"
                     % (c, ty, ty, c, same_molecule(seq, tab[c])), type=ty, sequence=c)

# ------------------------------------------------------------------ 3. random code strings
n_random = max(10, nseq // 2)
for i in range(n_random):
    ty = TYPES[i % 3]
    n = pick_len()
    mode = "realistic" if n > 300 else rng.choice(["all", "all", "plain", "ambiguous"])
    codes = random_codes(ty, n, mode)
    s = decorate(codes, ty)
    seq = add_seq("random", ty, s)
    stats["random"] += 1
    if isinstance(seq, BaseException):
        fail("C18:raises:%s" % ty, "Sequence(%r, type=%r) raises %s: %s" % (short(s), ty, type(seq).__name__, seq),
             type=ty, sequence=s)
        continue
    check_additive(ty, s, seq)
    if s != codes:
        ref = make("n", codes, ty)
        what = "spaces" if "*" not in s else "star"
        if isinstance(ref, BaseException) or seq.sequence != codes or same_molecule(seq, ref, tol=0):
            fail("C18:%s:%s" % (what, ty), "Sequence(%r, type=%r) differs from Sequence(%r): spaces must be ignored and "
                 "everything after '*' dropped" % (short(s), ty, short(codes)), type=ty, sequence=s, cleaned=codes)

# a few very long homopolymers and the full alphabet
for ty in TYPES:
    add_seq("long", ty, rng.choice(ALPHA[ty][0]) * maxlen)
    s = (ALPHA[ty][0] + ALPHA[ty][1]) * 3
    seq = add_seq("alphabet", ty, s)
    if not isinstance(seq, BaseException):
        check_additive(ty, s, seq)

# ------------------------------------------------------------------ 4. permutations of a multiset
for i in range(max(3, nseq // 15)):
    ty = TYPES[i % 3]
    n = rng.choice([2, 3, 5, 8, 20, 60, 200, 600])
    codes = list(random_codes(ty, n, rng.choice(["all", "plain", "ambiguous"])))
    base = None
    for k in range(3):
        if k == 1:
            codes.sort()
        elif k == 2:
            rng.shuffle(codes)
        s = "".join(codes)
        seq = add_seq("permuted", ty, s)
        stats["permuted"] += 1
        if isinstance(seq, BaseException):
            continue
        if base is None:
            base = (s, seq)
        else:
            diff = same_molecule(base[1], seq)
            if diff:
                fail("C18:permutation:%s:%s" % (ty, diff[0]),
                     "Sequence(%r) and its permutation Sequence(%r) (type %r) differ in %s" % (short(base[0]), short(s), ty, diff),
                     type=ty, sequence=base[0], permuted=s)

# ------------------------------------------------------------------ 5. formula("aa:..."), formula("dna:..."), formula("rna:...")
def form_term(f):
    if isinstance(f, BaseException):
        return "(FE %s)" % err_kind(f)
    return "(FO %s %s)" % (struct_term(f.structure), enc(f.density))


def add_prefix(s):
    try:
        f = formula(s)
    except Exception as e:  # noqa
        f = e
    cases.append("(CPrefix %s %s)" % (cstr(s), form_term(f)))
    meta.append(["prefix", s.split(":", 1)[0] if ":" in s else "", short(s), len(s)])
    stats["prefix"] += 1
    return f


for i in range(max(6, nseq // 10)):
    ty = TYPES[i % 3]
    n = rng.choice([0, 1, 2, 5, 12, 40, 150])
    body = decorate(random_codes(ty, n, rng.choice(["all", "plain"])), ty)
    s = ty + ":" + body
    f = add_prefix(s)
    seq = make(None, body, ty)
    if isinstance(f, BaseException) or isinstance(seq, BaseException):
        fail("C18:prefix:%s" % ty, "formula(%r) / Sequence(None, %r, %r) raised" % (short(s), short(body), ty), formula=s)
    elif f.structure != seq.labile_formula.structure or f.density != seq.labile_formula.density:
        fail("C18:prefix:%s" % ty, "formula(%r) is not Sequence(None, %r, type=%r).labile_formula" % (short(s), short(body), ty),
             formula=s)
# the same prefixed string evaluated again after the first result was used: extended in place (the documentation adds
# the chain terminations with +=), given a density, or asked for with another table - it is still the sequence's formula
stats["prefix_histories"] = 0
try:
    from periodictable import core as _core, mass as _mass
    _priv = _core.PeriodicTable("c18private")
    _mass.init(_priv)
except Exception:  # noqa
    _priv = None
for i in range(6):
    ty = TYPES[i % 3]
    body = random_codes(ty, rng.choice([1, 3, 8]), "plain")
    s = ty + ":" + body
    seq = make(None, body, ty)
    if isinstance(seq, BaseException):
        continue
    try:
        f1 = formula(s)
        how = rng.choice(["iadd", "density", "table"]) if _priv is not None else rng.choice(["iadd", "density"])
        if how == "iadd":
            f1 += formula("H[1]2O"); txt = "f = formula(%r); f += formula('H[1]2O')" % s
        elif how == "density":
            f1.density = 9.75; txt = "f = formula(%r); f.density = 9.75" % s
        else:
            formula(s, table=_priv); txt = "formula(%r, table=private)" % s
        f2 = formula(s)
    except Exception as e:  # noqa
        fail("C18:prefix:%s" % ty, "%s; formula(%r) raised %s: %s" % (txt if "txt" in dir() else s, s, type(e).__name__, e), formula=s)
        continue
    stats["prefix_histories"] += 1
    ref = seq.labile_formula
    if f2.structure != ref.structure or f2.density != ref.density or any(getattr(a, "table", "public") != "public" for a in f2.atoms):
        fail("C18:prefix-history:%s" % how, "%s; then formula(%r) is %s @ %r with atoms of %s, Sequence(None, %r, type=%r).labile_formula is %s @ %r"
             % (txt, s, f2, f2.density, sorted(set(getattr(a, "table", "public") for a in f2.atoms)), body, ty, ref, ref.density), formula=s)
for s in ["aa:", "dna:", "rna:*", "aa:A:C", "aa:a", "dna:AE", "rna:AZ", "aa:AO", "aa:A\tC", "AA:AC", "aa :AC", " aa:AC", "x:y",
          "Aa:G", "dna:ACGT ACGT*TTTT", "H2O", "", "C3H4H[1]NO"]:
    add_prefix(s)

# ------------------------------------------------------------------ 6. unknown codes
for i in range(max(6, nseq // 30)):
    ty = TYPES[i % 3]
    bad = rng.choice("acgtn!1?.>\t\n" + ("OU" if ty == "aa" else "EFILOPQZ"))
    codes = random_codes(ty, rng.randint(0, 12), "all")
    pos = rng.randint(0, len(codes))
    s = codes[:pos] + bad + codes[pos:]
    if rng.random() < 0.3:
        s = codes + "*" + bad          # after the star: harmless
    add_seq("invalid", ty, s)
    stats["invalid"] += 1
add_seq("invalid", "protein", "ACD")
add_seq("invalid", "AA", "ACD")

# ------------------------------------------------------------------ 7. FASTA files
EXTS = [(".fna", "dna"), (".ffn", "dna"), (".faa", "aa"), (".frn", "rna"), (".fasta", "aa"), (".txt", "aa"), ("", "aa"),
        (".fna.gz", "aa"), (".FAA", "aa"), (".frn.faa", "aa"), ("x.fna.frn", "rna")]


def wrap(s, width):
    return [s[i:i + width] for i in range(0, len(s), width)] or [""]


def fasta_text(nrec, ty):
    """records as written + the text.  Returns (records [(header line, [lines])], pre lines, text)"""
    recs = []
    for _ in range(nrec):
        name = ">" + "".join(rng.choice("abcXYZ0123|_ .>;,") for _ in range(rng.randint(0, 20)))
        name = name.rstrip()
        codes = random_codes(ty, rng.choice([0, 1, 7, 60, 61, 150, 400]), rng.choice(["all", "plain"]))
        if rng.random() < 0.25:
            codes += "*"
        lines = wrap(codes, rng.choice([10, 60, 70, 80, 1000]))
        if rng.random() < 0.3:     # blank lines inside / after the record
            for _ in range(rng.randint(1, 2)):
                lines.insert(rng.randint(0, len(lines)), "")
        if rng.random() < 0.2:     # a blank inside a line
            k = rng.randrange(len(lines))
            lines[k] = lines[k][:3] + " " + lines[k][3:]
        recs.append((name, lines))
    pre = []
    if rng.random() < 0.25:
        pre = rng.choice([[""], ["; a comment line"], ["ACGT"], ["", ""]])
    out = list(pre)
    for name, lines in recs:
        out.append(name + rng.choice(["", "", " ", "\t", "  \t "]))
        for l in lines:
            out.append(l + rng.choice(["", "", "", " ", "\t"]))
    text = "\n".join(out)
    if out and rng.random() < 0.8:
        text += "\n"
    return recs, pre, text


def add_fasta(path, ty_arg, text, expect_recs=None, expect_type=None):
    with open(path, "w", newline="\n") as fh:
        fh.write(text)
    try:
        with open(path, "rt") as fh:
            recs = list(fasta.read_fasta(fh))
    except Exception as e:  # noqa
        recs = None
        fail("C18:fasta:read", "read_fasta raises %s on a generated file" % type(e).__name__, text=text)
    alls = []
    try:
        for sq in fasta.Sequence.loadall(path, type=ty_arg):
            alls.append(sq)
    except Exception as e:  # noqa
        alls.append(e)
    try:
        first = fasta.Sequence.load(path, type=ty_arg)
    except Exception as e:  # noqa
        first = e
    cases.append("(CFasta %s %s %s [%s] [%s] %s)" % (
        cstr(path), optstr(ty_arg), cstr(text),
        "; ".join("(%s, %s)" % (cstr(n if isinstance(n, str) else repr(n)), cstr(s if isinstance(s, str) else repr(s)))
                  for n, s in (recs or [])),
        "; ".join(mol_term(x) for x in alls), mol_term(first)))
    meta.append(["fasta", os.path.basename(path), "%d records" % len(recs or []), len(text)])
    stats["fasta_files"] += 1
    stats["fasta_records"] += len(recs or [])
    # the property's own statement: one record per header, sequence = concatenation of its lines
    if expect_recs is not None and recs is not None:
        want = [(n, "".join(l.rstrip() for l in lines)) for n, lines in expect_recs]
        if recs != want:
            k = next((i for i, (a, b) in enumerate(zip(recs, want)) if a != b), min(len(recs), len(want)))
            fail("C18:fasta:records", "read_fasta on a file with %d '>' headers yields %d records; first difference at record %d"
                 % (len(want), len(recs), k), text=text, expected=want[:k + 1][-1:] if want else [], got=recs[:k + 1][-1:])
        elif expect_type is not None:
            for (n, s), got in zip(want, alls):
                ref = make(n, s, expect_type)
                if isinstance(ref, BaseException) != isinstance(got, BaseException) or (
                        not isinstance(ref, BaseException) and (got.name != n or got.sequence != ref.sequence
                                                                  or same_molecule(got, ref, tol=0))):
                    fail("C18:fasta:type:%s" % os.path.splitext(path)[1],
                         "Sequence.loadall(%r) does not give Sequence(name, seq, type=%r) for record %r"
                         % (os.path.basename(path), expect_type, n), file=os.path.basename(path), text=text)
                    break
            okall = [x for x in alls if not isinstance(x, BaseException)]
            if want and okall and not isinstance(first, BaseException) and (first.name != okall[0].name
                                                                          or same_molecule(first, okall[0], tol=0)):
                fail("C18:fasta:load-first", "Sequence.load(%r) is not the first record of loadall" % os.path.basename(path),
                     file=os.path.basename(path), text=text)


scratch = tempfile.mkdtemp(prefix="c18_", dir="/tmp")
try:
    nfiles = max(8, nseq // 20)
    for i in range(nfiles):
        ext, ty = EXTS[i % len(EXTS)]
        nrec = rng.choice([1, 1, 2, 3, 5])
        ty_arg = None
        if rng.random() < 0.15:
            ty_arg = rng.choice(TYPES)
            ty = ty_arg
        recs, pre, text = fasta_text(nrec, ty)
        add_fasta(os.path.join(scratch, "f%d%s" % (i, ext)), ty_arg, text, expect_recs=recs, expect_type=ty)
    # edge cases
    add_fasta(os.path.join(scratch, "empty.faa"), None, "", expect_recs=[], expect_type="aa")
    add_fasta(os.path.join(scratch, "nohdr.fna"), None, "ACGT\nACGT\n", expect_recs=[], expect_type="dna")
    add_fasta(os.path.join(scratch, "hdronly.frn"), None, ">only", expect_recs=[(">only", [])], expect_type="rna")
    add_fasta(os.path.join(scratch, "gt.faa"), None, ">\nAC\n>\n\n>x\nDE", expect_recs=[(">", ["AC"]), (">", [""]), (">x", ["DE"])],
              expect_type="aa")
    add_fasta(os.path.join(scratch, "indent.faa"), None, ">a\nAC\n >b\nDE\n")          # ' >b' is sequence text: KeyError
    add_fasta(os.path.join(scratch, "mismatch.fna"), None, ">p\nMKV\n>q\nACGT\n")      # protein letters in a dna file
    add_fasta(os.path.join(scratch, "badtype.faa"), "protein", ">p\nMKV\n")
    add_fasta(os.path.join(scratch, "explicit.fna"), "aa", ">p\nMKV*\n", expect_recs=[(">p", ["MKV*"])], expect_type="aa")
finally:
    shutil.rmtree(scratch, ignore_errors=True)

# ------------------------------------------------------------------ 8. type from the file name
for stem in ["a", "dir.fna/x", "genome", ".fna", "x.y", ""]:
    for ext, ty in EXTS:
        if rng.random() < 0.5:
            continue
        for targ in (None, "rna") if rng.random() < 0.2 else (None,):
            fn = stem + ext
            got = fasta._guess_type_from_filename(fn, targ)
            cases.append("(CGuess %s %s %s)" % (cstr(fn), optstr(targ), cstr(got)))
            meta.append(["guess", fn, str(targ), 0])
            stats["guess"] += 1
            want = targ if targ is not None else {".fna": "dna", ".ffn": "dna", ".faa": "aa", ".frn": "rna"}.get(fn[-4:], "aa")
            if got != want:
                fail("C18:extension:%s" % fn[-4:], "_guess_type_from_filename(%r, %r) = %r, expected %r" % (fn, targ, got, want),
                     filename=fn, type=targ)

stats["codes_seen"] = len(stats["codes_seen"])
stats["cases"] = len(cases)
json.dump(dict(cases=cases, meta=meta, stats=stats, direct_fails=direct), sys.stdout)
