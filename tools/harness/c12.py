"""C12 harness: density / natural density (keyword, attribute, '@' tags), Formula.replace and
Formula.volume on formulas mixing natural elements, isotopes and ions.  Every case records what
the implementation serves; `direct_fails` holds failing inputs of the property's own statements
evaluated on the implementation alone (no model involved)."""
import json, sys, random, math
from pyenc import enc, attempt, cstr, err_kind
from fcommon import *
import periodictable
from periodictable import constants
from periodictable.formulas import formula, Formula

REPLAY = sys.argv[2] if sys.argv[1] == "--replay" else None
seed, ncase = (0, 0) if REPLAY is not None else (int(sys.argv[1]), int(sys.argv[2]))
rng = random.Random(seed)
PUB = periodictable.elements
pool = Pool(PUB, rng)
cases, meta, fails = [], [], []
stats = dict(kind={}, src={}, tags={}, unknown_density=0, replace=dict(present=0, absent=0, target_present=0, same=0, raised=0),
             portion={}, packing={}, cell=0, atoms=dict(el=0, iso=0, ion=0, isoion=0), errors=0)

# the documented packing factors (docstring table of Formula.volume: formula and 5-digit value)
DOC_PF = dict(cubic=(math.pi / 6, 0.52360), bcc=(math.pi * math.sqrt(3) / 8, 0.68017), hcp=(math.pi / math.sqrt(18), 0.74048),
              fcc=(math.pi / math.sqrt(18), 0.74048), diamond=(math.pi * math.sqrt(3) / 16, 0.34009))
for _n, (_v, _d) in DOC_PF.items():
    assert abs(_v - _d) < 6e-6, _n


def fail(sig, what, text):
    fails.append(dict(signature=sig, what=what, input=text))


def rel(a, b, tol=1e-12):
    return a == b or abs(a - b) <= tol * max(abs(a), abs(b))


def num(x):
    """decimal text of a float without exponent"""
    s = repr(float(x))
    if "e" in s or "E" in s:
        s = ("%.12f" % x).rstrip("0")
    if s.endswith(".0") and s != "0.0" and rng.random() < 0.5:
        s = s[:-2]
    return s


def atom_expr(a):
    z, A, q = atom_key(a)
    s = "elements[%d]" % z
    if A:
        s += "[%d]" % A
    if q:
        s += ".ion[%d]" % q
    return s


def atom_text(a):
    """the atom in formula-string syntax"""
    z, A, q = atom_key(a)
    s = PUB[z].symbol
    if A:
        s += "[%d]" % A
    if q:
        s += "{%s%s}" % ("" if abs(q) == 1 else str(abs(q)), "+" if q > 0 else "-")
    return s


def kind_of(a):
    z, A, q = atom_key(a)
    return ("isoion" if q else "iso") if A else ("ion" if q else "el")


def pick_atom(with_radius=False):
    for _ in range(50):
        a = pool.atom(zmax=96 if with_radius else 118)
        if a.mass and a.mass > 0:
            stats["atoms"][kind_of(a)] += 1
            return a
    return PUB[26]


def density_value():
    r = rng.random()
    if r < 0.3:
        return float(rng.randint(1, 12))
    if r < 0.8:
        return round(rng.uniform(0.05, 22), rng.randint(1, 4))
    return float("%.4g" % (10 ** rng.uniform(-3, 1.3)))


def gen_string():
    """a compound string over random atoms, optionally grouped, and its tag-free text"""
    n = rng.randint(1, 4)
    toks = []
    for _ in range(n):
        a = pick_atom(True)
        c = pool.count(rng.random() < 0.6) or 1
        toks.append(atom_text(a) + ("" if c == 1 else num(c)))
    s = ""
    if len(toks) >= 2 and rng.random() < 0.3:
        k = rng.randint(1, len(toks) - 1)
        grp = "(" + "".join(toks[k:]) + ")" + rng.choice(["2", "3", "1.5", ""])
        s = rng.choice(["", " "]).join(toks[:k]) + grp
    else:
        s = rng.choice(["", "", " "]).join(toks)
    return s


FIXED = ["H2O", "D2O", "HDO", "NaCl", "Na{+}Cl{-}", "Fe[56]2O3", "C6H6", "CaCO3", "O[18]H2", "H[1]2O[16]", "Fe{2+}O{2-}",
         "Fe[57]{3+}2O3", "Li[6]F", "U[235]O2", "C[13]O2", "SiO2", "D{+}", "Fe", "Ni[58]", "Au", "Cu{2+}", "TiO2", "B[10]4C"]
MIXES = ["50 wt% H2O@1 // D2O@1n", "30 vol% Fe // Ni", "(50 wt% Fe // Ni)@7n", "(25 vol% D2O@1n // H2O@1)@1.05i",
         "5 g NaCl@2.16 // 20 mL H2O@1", "(10 wt% Fe[56] // Ni)@8"]


def read_obs(f):
    d = f.density
    nat = attempt(lambda: f.natural_density)
    ratio = attempt(lambda: f.natural_mass_ratio())
    mass = attempt(lambda: f.mass)
    return d, nat, ratio, mass


def table_ratio(f):
    """the property's ratio from the formula's own atoms and the table masses"""
    nat = iso = 0.0
    for a, c in f.atoms.items():
        z, A, q = atom_key(a)
        nat += c * (PUB[z].mass - q * constants.electron_mass)
        iso += c * a.mass
    return nat / iso


def direct_density(f, text):
    if f.mass <= 0:
        return
    want = table_ratio(f)
    got = f.natural_mass_ratio()
    if not rel(got, want, 1e-12):
        fail("C12:natural-mass-ratio", "%s: natural_mass_ratio() = %r, table masses give %r" % (text, got, want), text)
        return
    if f.density is not None and f.density > 0:
        if not rel(f.natural_density / f.density, want, 1e-12):
            fail("C12:natural-density-ratio", "%s: natural_density/density = %r, mass ratio %r" % (text, f.natural_density / f.density, want), text)
    # the keywords applied to an existing Formula object (whatever density it already has)
    for kwname in ("natural_density", "density"):
        xk = density_value()
        gk = attempt(lambda: formula(f, **{kwname: xk}))
        if isinstance(gk, Exception) or not rel(getattr(gk, kwname), xk, 1e-13) or \
                not rel(gk.natural_density / gk.density, want, 1e-12):
            fail("C12:keyword-on-formula-object:" + kwname,
                 "formula(f, %s=%r) for f = %s gives density %r, natural_density %r" % (
                     kwname, xk, text, getattr(gk, "density", gk), getattr(gk, "natural_density", None)), text)
            break
    # setting one and reading the other inverts (on a copy)
    g = formula(f)
    x = density_value()
    g.natural_density = x
    if not rel(g.natural_density, x, 1e-13) or not rel(g.density, x / want, 1e-12):
        fail("C12:setter-getter", "%s: natural_density set to %r reads %r, density %r" % (text, x, g.natural_density, g.density), text)
    y = density_value()
    g.density = y
    nd = g.natural_density
    g.natural_density = nd
    if not rel(g.density, y, 1e-13) or not rel(nd, y * want, 1e-12):
        fail("C12:getter-setter", "%s: density %r, natural %r, set back gives %r" % (text, y, nd, g.density), text)


def build_case():
    """returns (src_term, dens_kw, nat_kw, f or exception, text)"""
    r = rng.random()
    dk = nk = None
    kwr = rng.random()
    if kwr < 0.3:
        dk = density_value()
    elif kwr < 0.55:
        nk = density_value()
    elif kwr < 0.58:
        dk, nk = density_value(), density_value()
    kw = {}
    if dk is not None:
        kw["density"] = dk
    if nk is not None:
        kw["natural_density"] = nk
    kwt = "".join(", %s=%r" % (k, v) for k, v in kw.items())
    if r < 0.45:
        s = gen_string() if rng.random() < 0.7 else rng.choice(FIXED)
        tag = rng.random()
        if tag < 0.55:
            suffix = rng.choice(["", "n", "i"])
            s += rng.choice(["", "", " "]) + "@" + num(density_value()) + suffix
            stats["tags"]["@d" + suffix] = stats["tags"].get("@d" + suffix, 0) + 1
        elif tag < 0.6:
            s = rng.choice(MIXES)
            stats["tags"]["mixture"] = stats["tags"].get("mixture", 0) + 1
        f = attempt(lambda: formula(s, **kw))
        stats["src"]["string"] = stats["src"].get("string", 0) + 1
        return "(SrcString %s)" % cstr(s), dk, nk, f, "formula(%r%s)" % (s, kwt)
    if r < 0.65:
        st = pool.nested(rng.randint(0, 2), rng.random() < 0.6)
        f = attempt(lambda: formula(st, **kw))
        stats["src"]["nested"] = stats["src"].get("nested", 0) + 1
        return "(SrcNested %s)" % struct_term(st), dk, nk, f, "formula(%s%s)" % (nested_expr(st), kwt)
    if r < 0.85:
        d = {}
        for _ in range(rng.randint(1, 4)):
            d[pick_atom(True)] = pool.count(rng.random() < 0.6)
        f = attempt(lambda: formula(dict(d), **kw))
        stats["src"]["dict"] = stats["src"].get("dict", 0) + 1
        return ("(SrcDict [%s])" % "; ".join("(%s, %s)" % (atom_term(a), qterm(c)) for a, c in d.items()), dk, nk, f,
                "formula({%s}%s)" % (", ".join("%s: %r" % (atom_expr(a), c) for a, c in d.items()), kwt))
    a = pick_atom(True)
    f = attempt(lambda: formula(a, **kw))
    stats["src"]["atom"] = stats["src"].get("atom", 0) + 1
    return "(SrcAtom %s)" % atom_term(a), dk, nk, f, "formula(%s%s)" % (atom_expr(a), kwt)


def nested_expr(seq):
    items = []
    for c, fr in seq:
        items.append("(%r, %s)" % (c, atom_expr(fr) if core.isatom(fr) else nested_expr(fr)))
    return "[" + ", ".join(items) + "]"


def assignments(f, text):
    """a few attribute assignments, performed on f; returns (terms, text)"""
    terms = []
    for _ in range(rng.choice([0, 0, 1, 1, 2, 3])):
        r = rng.random()
        if r < 0.45:
            v = density_value()
            f.density = v
            terms.append("(SetD (Some %s))" % qterm(v)); text += "; f.density = %r" % v
        elif r < 0.9:
            v = density_value()
            f.natural_density = v
            terms.append("(SetND %s)" % qterm(v)); text += "; f.natural_density = %r" % v
        else:
            f.density = None
            terms.append("(SetD None)"); text += "; f.density = None"
    return terms, text


def emit(kind, src, dk, nk, sets, op, obs, res, text, base=None):
    d, nat, ratio, mass = obs
    cases.append("(mkC %s %s %s [%s] %s %s %s %s %s %s)" % (src, optq_term(dk), optq_term(nk), "; ".join(sets), op,
                                                          enc(d), enc(nat), enc(ratio), enc(mass), res))
    meta.append(dict(kind=kind, text=text, base=base or text))
    stats["kind"][kind] = stats["kind"].get(kind, 0) + 1


def optf(x):
    return "None" if x is None else "(Some %s)" % qterm(x)


# ---------------------------------------------------------------- operations
def choose_replace(f):
    atoms = list(f.atoms)
    r = rng.random()
    if r < 0.12 or not atoms:
        src = pick_atom(True)
        for _ in range(20):
            if src not in atoms:
                break
            src = pick_atom(True)
    else:
        src = rng.choice(atoms)
    r = rng.random()
    z = src.number
    if r < 0.45 and PUB[z].isotopes:
        tgt = PUB[z][rng.choice(PUB[z].isotopes)]
        q = atom_key(src)[2]
        if q and rng.random() < 0.7:
            tgt = tgt.ion[q]
    elif r < 0.6:
        tgt = PUB[z]
    elif r < 0.8 and len(atoms) > 1:
        tgt = rng.choice(atoms)
    else:
        tgt = pick_atom(True)
    if tgt is src and rng.random() < 0.8:
        tgt = pick_atom(True)
    portion = rng.choice([0, 1, 0.5, 0.25, 1.0, 0.0, round(rng.uniform(0, 1), rng.randint(1, 3)), rng.random()])
    return src, tgt, portion


def do_replace(f, text, forced=None):
    src, tgt, portion = forced or choose_replace(f)
    atoms = list(f.atoms)
    pk = "0" if portion == 0 else "1" if portion == 1 else "0.5" if portion == 0.5 else "0.25" if portion == 0.25 else "other"
    stats["portion"][pk] = stats["portion"].get(pk, 0) + 1
    present = src in atoms
    stats["replace"]["present" if present else "absent"] += 1
    if tgt in atoms:
        stats["replace"]["target_present"] += 1
    if tgt is src:
        stats["replace"]["same"] += 1
    text2 = "%s; f.replace(%s, %s, %r)" % (text, atom_expr(src), atom_expr(tgt), portion)
    before = {atom_key(a): c for a, c in f.atoms.items()}
    dens, mass = f.density, f.mass
    g = attempt(lambda: f.replace(src, tgt, portion))
    op = "(OpReplace %s %s %s)" % (atom_term(src), atom_term(tgt), qterm(portion))
    if isinstance(g, Exception):
        stats["replace"]["raised"] += 1
        if dens is None and present and isinstance(g, TypeError):
            fail("C12:replace-unknown-density-raises", "%s raises %s: %s (the density is unknown and must stay unknown)"
                 % (text2, type(g).__name__, g), text2)
        else:
            fail("C12:replace-raises", "%s raises %s: %s" % (text2, type(g).__name__, g), text2)
        return op, "(RErr %s)" % err_kind(g), text2
    after = {atom_key(a): c for a, c in g.atoms.items()}
    ks, kt = atom_key(src), atom_key(tgt)
    ns, nt = before.get(ks, 0), before.get(kt, 0)
    if ks == kt:
        same = all(rel(after.get(k, 0), before.get(k, 0)) for k in set(before) | set(after))
        if not same or (dens is not None and (g.density is None or not rel(g.density, dens))):
            fail("C12:replace-same-atom-not-identity", "%s: atoms %r -> %r, density %r -> %r" % (text2, before, after, dens, g.density), text2)
    else:
        for k in set(before) | set(after):
            if k not in (ks, kt) and after.get(k, 0) != before.get(k, 0):
                fail("C12:replace-other-counts", "%s: count of %r changes from %r to %r" % (text2, k, before.get(k, 0), after.get(k, 0)), text2)
                break
        if not rel(after.get(kt, 0), nt + ns * portion, 1e-12) or not rel(after.get(ks, 0), ns * (1 - portion), 1e-12):
            fail("C12:replace-counts", "%s: source %r -> %r, target %r -> %r" % (text2, ns, after.get(ks, 0), nt, after.get(kt, 0)), text2)
        want_mass = mass - ns * portion * (src.mass - tgt.mass)
        if not rel(g.mass, want_mass, 1e-12):
            fail("C12:replace-mass", "%s: mass %r, expected %r" % (text2, g.mass, want_mass), text2)
        if dens is not None:
            if g.density is None or not rel(g.mass / g.density, mass / dens, 1e-12):
                fail("C12:replace-cell-volume", "%s: mass/density %r -> %r" % (text2, mass / dens, None if g.density is None else g.mass / g.density), text2)
    if dens is None:
        if len(g.atoms) == 1:
            only = list(g.atoms)[0]
            if g.density != only.density:
                fail("C12:replace-unknown-single-atom", "%s: density %r, the remaining atom has %r" % (text2, g.density, only.density), text2)
        elif g.density is not None:
            fail("C12:replace-unknown-becomes-known", "%s: density was unknown, is %r" % (text2, g.density), text2)
    return op, "(RF %s %s)" % (struct_term(g.structure), enc(g.density)), text2


def do_vol_pack(f, text):
    r = rng.random()
    if r < 0.15:
        pf, call, kwcall = "PfDefault", "f.volume()", lambda: f.volume()
        want_pf = DOC_PF["hcp"][0]
        stats["packing"]["default"] = stats["packing"].get("default", 0) + 1
    elif r < 0.7:
        name = rng.choice(sorted(DOC_PF))
        want_pf = DOC_PF[name][0]
        stats["packing"][name] = stats["packing"].get(name, 0) + 1
        spelled = rng.choice([name, name.upper(), name.capitalize(), name[0].upper() + name[1:-1] + name[-1].upper()])
        if rng.random() < 0.03:
            spelled, want_pf = rng.choice(["sc", "hex", "bcc "]), None
        pf = "(PfName %s)" % cstr(spelled)
        if rng.random() < 0.5:
            call, kwcall = "f.volume(%r)" % spelled, lambda: f.volume(spelled)
        else:
            call, kwcall = "f.volume(packing_factor=%r)" % spelled, lambda: f.volume(packing_factor=spelled)
    else:
        v = rng.choice([0.5, 0.74, 1, round(rng.uniform(0.2, 1.0), 3), rng.uniform(0.1, 1)])
        want_pf = v
        stats["packing"]["numeric"] = stats["packing"].get("numeric", 0) + 1
        pf = "(PfNum %s)" % qterm(v)
        if rng.random() < 0.5:
            call, kwcall = "f.volume(%r)" % v, lambda: f.volume(v)
        else:
            call, kwcall = "f.volume(packing_factor=%r)" % v, lambda: f.volume(packing_factor=v)
    text2 = text + "; " + call
    v = attempt(kwcall)
    op = "(OpVolPack %s)" % pf
    if isinstance(v, Exception):
        stats["errors"] += 1
        radii_ok = all(a.covalent_radius is not None for a in f.atoms)
        if radii_ok and want_pf is not None:
            fail("C12:volume-raises", "%s raises %s: %s" % (text2, type(v).__name__, v), text2)
        return op, "(RErr %s)" % err_kind(v), text2
    if want_pf is not None and any(a.covalent_radius is None for a in f.atoms):
        fail("C12:volume-packing", "%s = %r although the covalent radius of %s is unknown (the sphere volume cannot be summed)"
             % (text2, v, next(a for a in f.atoms if a.covalent_radius is None)), text2)
    elif want_pf is not None:
        want = 4 * math.pi / 3 * sum(a.covalent_radius ** 3 * c for a, c in f.atoms.items()) / want_pf * 1e-24
        if not rel(v, want, 1e-12):
            fail("C12:volume-packing", "%s = %r, (4 pi/3) sum r^3 n / packing factor * 1e-24 = %r" % (text2, v, want), text2)
    return op, "(RV %s)" % enc(v), text2


def doc_cell_volume(a, b, c, alpha, beta, gamma):
    b = a if b is None else b
    c = a if c is None else c
    ca = math.cos(math.radians(alpha)) if alpha is not None else 0.0
    cb = math.cos(math.radians(beta)) if beta is not None else ca
    cg = math.cos(math.radians(gamma)) if gamma is not None else ca
    rad = 1 - ca ** 2 - cb ** 2 - cg ** 2 + 2 * ca * cb * cg
    return rad, (a * b * c * math.sqrt(rad) if rad > 0 else None)


def do_vol_cell(f, text):
    stats["cell"] += 1
    for _ in range(200):
        a = rng.choice([round(rng.uniform(1, 30), rng.randint(0, 4)), rng.randint(1, 20)])
        b = rng.choice([None, round(rng.uniform(1, 30), 3), rng.randint(1, 20)])
        c = rng.choice([None, round(rng.uniform(1, 30), 3), rng.randint(1, 20)])
        ang = lambda: rng.choice([None, 90, 90.0, 60, 120, rng.randint(30, 150), round(rng.uniform(30, 150), 2)])
        alpha, beta, gamma = ang(), ang(), ang()
        if rng.random() < 0.25:
            alpha = beta = gamma = None
        rad, want = doc_cell_volume(a, b, c, alpha, beta, gamma)
        if rad > 0.02:
            break
    missing_a = rng.random() < 0.03
    vals = [None if missing_a else a, b, c, alpha, beta, gamma]
    names = ["a", "b", "c", "alpha", "beta", "gamma"]
    if missing_a and all(v is None for v in vals):
        vals[1] = 2.0
    # call style: keywords only, or a prefix of positionals; a lone positional without keywords is
    # the packing factor, so that style is excluded
    npos = 0
    if not missing_a and rng.random() < 0.5:
        prefix = 0
        while prefix < 6 and vals[prefix] is not None:
            prefix += 1
        npos = rng.randint(1, prefix)
        if npos == 1 and all(v is None for v in vals[1:]):
            npos = 0
    args = vals[:npos]
    kw = {n: v for n, v in list(zip(names, vals))[npos:] if v is not None}
    call = "f.volume(%s)" % ", ".join([repr(x) for x in args] + ["%s=%r" % kv for kv in kw.items()])
    text2 = text + "; " + call
    v = attempt(lambda: f.volume(*args, **kw))
    op = "(OpVolCell %s)" % " ".join(optf(x) for x in vals)
    if isinstance(v, Exception):
        stats["errors"] += 1
        if not missing_a:
            fail("C12:cell-volume-raises", "%s raises %s: %s" % (text2, type(v).__name__, v), text2)
        return op, "(RErr %s)" % err_kind(v), text2
    if missing_a:
        fail("C12:cell-volume-without-a", "%s = %r although the spacing a is missing" % (text2, v), text2)
    elif not rel(v, want * 1e-24, 1e-11):
        fail("C12:volume-cell", "%s = %r, a b c sqrt(1 - cos^2 - ... ) * 1e-24 = %r" % (text2, v, want * 1e-24), text2)
    return op, "(RV %s)" % enc(v), text2


# ---------------------------------------------------------------- tag == keyword, single atom default (direct only)
def direct_tags():
    BRACKETED = ["(50 vol% D2O@1n // H2O@1)", "(10 wt% Fe[56] // Ni)", "(30 wt% Li[6]F@2.6 // LiF@2.64)", "(25 vol% D2O@1n // H2O@1)"]
    for it in range(60):
        # (a bracketed mixture takes the same three tags on its closing bracket)
        s = rng.choice(BRACKETED) if it % 6 == 5 else (gen_string() if rng.random() < 0.7 else rng.choice(FIXED))
        d = density_value()
        base = attempt(lambda: formula(s))
        if isinstance(base, Exception):
            fail("C12:string-rejected", "formula(%r) raises %s" % (s, base), s)
            continue
        for suffix, kw in (("", "density"), ("i", "density"), ("n", "natural_density")):
            t = s + "@" + num(d) + suffix
            a = attempt(lambda: formula(t))
            b = attempt(lambda: formula(s, **{kw: d}))
            c = formula(s)
            setattr(c, kw, d)
            if isinstance(a, Exception) or isinstance(b, Exception) or a.structure != b.structure \
                    or not rel(a.density, b.density, 1e-15) or not rel(c.density, b.density, 1e-15):
                fail("C12:tag-keyword-attribute", "formula(%r), formula(%r, %s=%r) and the attribute assignment give densities %r, %r, %r"
                     % (t, s, kw, d, getattr(a, "density", a), getattr(b, "density", b), c.density), t)
    for _ in range(60):
        a = pick_atom()
        c = pool.count(True)
        for f, text in ((attempt(lambda: formula(a)), "formula(%s)" % atom_expr(a)),
                        (attempt(lambda: formula({a: c})), "formula({%s: %r})" % (atom_expr(a), c)),
                        (attempt(lambda: formula(atom_text(a) + num(c))), "formula(%r)" % (atom_text(a) + num(c))),
                        # one kind of atom spelled as several terms, with a leading count, or inside groups
                        (attempt(lambda: formula("2" + atom_text(a))), "formula(%r)" % ("2" + atom_text(a))),
                        (attempt(lambda: formula(atom_text(a) + " " + atom_text(a) + "3")), "formula(%r)" % (atom_text(a) + " " + atom_text(a) + "3")),
                        (attempt(lambda: formula("(" + atom_text(a) + "2)3")), "formula(%r)" % ("(" + atom_text(a) + "2)3")),
                        (attempt(lambda: formula([(2, [(c, a)])])), "formula([(2, [(%r, %s)])])" % (c, atom_expr(a))),
                        (attempt(lambda: formula([(1, a), (c, a)])), "formula([(1, %s), (%r, %s)])" % (atom_expr(a), c, atom_expr(a)))):
            if isinstance(f, Exception) or f.density != a.density:
                fail("C12:single-atom-default", "%s has density %r, the atom has %r" % (text, getattr(f, "density", f), a.density), text)


def replay_text(text):
    """re-evaluate the property's statements on one recorded input"""
    stmts = text.split("; ")
    ns = dict(elements=PUB, formula=formula)
    if not text.startswith("f = "):
        f = attempt(lambda: formula(text))
        print("formula(%r) -> %r" % (text, f), file=sys.stderr)
        if isinstance(f, Exception):
            fail("C12:formula-raises", "formula(%r) raises %s" % (text, f), text)
        return
    last = stmts[-1]
    pre = stmts[:-1] if last.startswith(("f.replace(", "f.volume(")) else stmts
    for st in pre:
        exec(st, ns)
    f = ns["f"]
    base = "; ".join(pre)
    direct_density(f, base)
    if last.startswith("f.replace("):
        src, tgt, p = eval("(" + last[len("f.replace("):-1] + ")", ns)
        op, res, _ = do_replace(f, base, forced=(src, tgt, p))
        print("result:", res, file=sys.stderr)
    elif last.startswith("f.volume("):
        args, kw = eval("(lambda *a, **k: (a, k))" + last[len("f.volume"):], ns)
        v = attempt(lambda: f.volume(*args, **dict(kw)))
        kw = dict(kw)
        if len(args) == 1 and not kw:
            pf, args = args[0], ()
        else:
            pf = kw.pop("packing_factor", "hcp")
        if args or kw:
            names = ["a", "b", "c", "alpha", "beta", "gamma"]
            full = dict(zip(names, args)); full.update(kw)
            if full.get("a") is None:
                want = None
            else:
                want = doc_cell_volume(*[full.get(n) for n in names])[1] * 1e-24
        else:
            pfv = DOC_PF[pf.lower()][0] if isinstance(pf, str) and pf.lower() in DOC_PF else (None if isinstance(pf, str) else pf)
            ok = all(a.covalent_radius is not None for a in f.atoms) and pfv is not None
            want = 4 * math.pi / 3 * sum(a.covalent_radius ** 3 * c for a, c in f.atoms.items()) / pfv * 1e-24 if ok else None
        print("volume:", v, "documented:", want, file=sys.stderr)
        if want is not None and (isinstance(v, Exception) or not rel(v, want, 1e-11)):
            fail("C12:volume", "%s = %r, documented formula gives %r" % (text, v, want), text)


if REPLAY is not None:
    replay_text(REPLAY)
    json.dump(dict(cases=[], meta=[], direct_fails=fails, stats=stats), sys.stdout)
    sys.exit(0)

direct_tags()


def direct_histories():
    """the statements hold for the formula as it is now: natural density touched first (keyword, tag, attribute or a
    plain read), then the formula changed in place (+=, structure assignment), then everything read again"""
    stats["histories"] = 0
    for _ in range(40):
        s1 = gen_string() if rng.random() < 0.6 else rng.choice(FIXED)
        s2 = gen_string() if rng.random() < 0.6 else rng.choice(FIXED)
        d = density_value()
        how = rng.choice(["keyword", "tag", "attribute", "read"])
        try:
            if how == "keyword":
                f = formula(s1, natural_density=d); t = "f = formula(%r, natural_density=%r)" % (s1, d)
            elif how == "tag":
                f = formula(s1 + "@" + num(d) + "n"); t = "f = formula(%r)" % (s1 + "@" + num(d) + "n")
            elif how == "attribute":
                f = formula(s1); f.natural_density = d; t = "f = formula(%r); f.natural_density = %r" % (s1, d)
            else:
                f = formula(s1, density=d); f.natural_mass_ratio(); f.natural_density
                t = "f = formula(%r, density=%r); f.natural_mass_ratio(); f.natural_density" % (s1, d)
            g = formula(s2)
            if rng.random() < 0.7:
                f += g; t += "; f += formula(%r)" % s2
            else:
                f.structure = g.structure; t += "; f.structure = formula(%r).structure" % s2
        except Exception as e:  # noqa
            fail("C12:history-raises", "%s raised %s: %s" % (t if "t" in dir() else s1, type(e).__name__, e), s1)
            continue
        stats["histories"] += 1
        direct_density(f, t)


direct_histories()

# the witnesses of the refuted statements and a few documented examples, replayed first
H, D, O = PUB[1], PUB[1][2], PUB[8]
for s0, src0, tgt0, p0 in [("H2O", H, D, 1), ("H2O@1", H, H, 1), ("HD", H, D, 1), ("H2O@1", H, D, 1), ("H2O@1", H, D, 0.5),
                           ("D2O@1n", D, H, 1), ("H2O@1", PUB[6], D, 1), ("H2O", PUB[6], D, 0.5), ("H2O@1", H, O, 1),
                           ("Fe[56]{2+}O{2-}@5.7", PUB[26][56].ion[2], PUB[26].ion[2], 0.25), ("H2O@1", H, H, 0.5)]:
    f0 = formula(s0)
    t0 = "f = formula(%r)" % s0
    obs0 = read_obs(f0)
    op0, res0, t1 = do_replace(f0, t0, forced=(src0, tgt0, p0))
    emit("replace-witness", "(SrcString %s)" % cstr(s0), None, None, [], op0, obs0, res0, t1)

while len(cases) < ncase:
    k = len(cases) % 10
    src, dk, nk, f, text = build_case()
    if isinstance(f, Exception):
        stats["errors"] += 1
        fail("C12:formula-raises", "%s raises %s: %s" % (text, type(f).__name__, f), text)
        emit("build-error", src, dk, nk, [], "OpNone", (None, None, None, None), "(RErr %s)" % err_kind(f), text)
        continue
    if not f.mass > 0:
        continue        # a formula without mass (all counts zero) is outside the property's domain
    text = "f = " + text
    sets, text = assignments(f, text)
    if f.density is None:
        stats["unknown_density"] += 1
    obs = read_obs(f)
    direct_density(f, text)
    if k < 3:
        emit("density", src, dk, nk, sets, "OpNone", obs, "RNone", text)
    elif k < 7:
        op, res, text2 = do_replace(f, text)
        emit("replace", src, dk, nk, sets, op, obs, res, text2, text)
    elif k < 9:
        op, res, text2 = do_vol_pack(f, text)
        emit("volume-packing", src, dk, nk, sets, op, obs, res, text2, text)
    else:
        op, res, text2 = do_vol_cell(f, text)
        emit("volume-cell", src, dk, nk, sets, op, obs, res, text2, text)

json.dump(dict(cases=cases, meta=meta, direct_fails=fails, stats=stats), sys.stdout)
