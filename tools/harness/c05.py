"""C05 harness: x-ray scattering factors, SLD, refraction, reflectivity and f0 observed on the real
library, as Coq terms for Model/C05Check.v, plus the property's own statements evaluated directly on
the implementation against a trivial, independent reading of the .nff / f0_WaasKirf.dat text
(`direct_fails`: the failing inputs used by the verdict protocol).

usage: c05.py <quick|thorough> <seed>"""
import json, math, os, random, re, sys
import numpy as np
from pyenc import enc, enc_float, attempt, zlit
from fcommon import qterm, atom_term, atom_key, struct_term, optq_term, Pool
import periodictable
from periodictable import core, formulas, xsf, cromermann

TIER = sys.argv[1] if len(sys.argv) > 1 else "quick"
SEED = int(sys.argv[2]) if len(sys.argv) > 2 else 0
rng = random.Random(SEED * 7919 + 5)
T = periodictable.elements
XSF_DIR = os.path.join(os.path.dirname(os.path.abspath(xsf.__file__)), "xsf")
INF = float("inf")


def ef(x):
    return enc_float(float(x))


def fl(v):
    """numpy scalar / 0-d array -> Python float (None stays None)"""
    if v is None:
        return None
    return float(v)


# ------------------------------------------------------------------ trivial readers (for the direct statements)

def read_nff(sym):
    """rows of (E_eV, f1, f2) as floats, in file order; None when the element has no file"""
    path = os.path.join(XSF_DIR, sym.lower() + ".nff")
    if not os.path.exists(path):
        return None
    rows = []
    with open(path) as f:
        for k, line in enumerate(f):
            w = line.split()
            if k == 0 or not w:
                continue
            rows.append((float(w[0]), float(w[1]), float(w[2])))
    return rows


def hand_interp(rows, col, x_kev):
    """the property's reading: tabulated value at a node, straight line between the two neighbouring
    rows (in energy order), NaN outside the table and wherever f1 is marked -9999"""
    srt = sorted(rows, key=lambda r: r[0])
    x = x_kev * 1000.0
    tol = 1e-12 * max(abs(x), 1e-300)
    if x < srt[0][0] - tol or x > srt[-1][0] + tol:
        return float("nan"), 0.0
    for r in srt:
        if abs(x - r[0]) <= tol:
            v = r[col]
            return (float("nan") if (col == 1 and v == -9999.0) else v), abs(v)
    for a, b in zip(srt, srt[1:]):
        if a[0] < x < b[0]:
            if col == 1 and (a[1] == -9999.0 or b[1] == -9999.0):
                return float("nan"), 0.0
            v = a[col] + (b[col] - a[col]) * (x - a[0]) / (b[0] - a[0])
            return v, abs(a[col]) + abs(b[col])
    return float("nan"), 0.0


def out_of_order(rows):
    return [i for i in range(1, len(rows)) if rows[i][0] < rows[i - 1][0]]


def disorder_windows(rows):
    """energy intervals (keV) in which file order and energy order bracket differently"""
    win = []
    for i in out_of_order(rows):
        lo = min(rows[i][0], rows[i - 1][0])
        hi = max(rows[i][0], rows[i - 1][0])
        # widen to the neighbours: any bracket touching the displaced rows is affected
        lo = min(lo, rows[i - 2][0]) if i >= 2 else lo
        hi = max(hi, rows[i + 1][0]) if i + 1 < len(rows) else hi
        win.append((lo / 1000.0, hi / 1000.0))
    return win


def read_waaskirf():
    """[(Z, symbol, a[5], c, b[5])] from the data lines of f0_WaasKirf.dat"""
    out, z, sym = [], None, None
    with open(os.path.join(XSF_DIR, "f0_WaasKirf.dat")) as f:
        lines = f.read().split("\n")
    i = 0
    while i < len(lines):
        w = lines[i].split()
        if w and w[0] == "#S":
            z, sym = int(w[1]), w[2]
        elif w and w[0] == "#L" and sym is not None:
            v = [float(t) for t in lines[i + 1].split()]
            out.append((z, sym, v[0:5], v[5], v[6:11]))
            sym = None
            i += 1
        i += 1
    return out


def sym_charge(sym):
    m = re.fullmatch(r"([A-Za-z]+?)(\d+)([+-])", sym)
    if not m:
        return sym, 0
    return m.group(1), int(m.group(2)) * (1 if m.group(3) == "+" else -1)


# documented constants, written out here (not taken from the library)
R_E = 2.8179402894e-15          # m
N_A = 6.02214179e23
HC = 4.13566733e-15 * 299792458 * 1e7      # keV Angstrom: h (eV s) * c (m/s) * 1e7

direct_fails = []


def fail(sig, what, **kw):
    direct_fails.append(dict(signature=sig, what=what, **kw))


def close(a, b, scale, rel=1e-9):
    if a is None or b is None:
        return a is None and b is None
    if math.isnan(a) or math.isnan(b):
        return math.isnan(a) and math.isnan(b)
    return abs(a - b) <= rel * max(scale, abs(a), abs(b), 1e-300)


# ------------------------------------------------------------------ element cases

TAB = [el for el in T if el.number >= 1 and read_nff(el.symbol) is not None]     # elements with a table
NOTAB = [el for el in T if el.number >= 1 and read_nff(el.symbol) is None]


def pick_elements():
    if TIER == "thorough":
        return list(TAB)
    n = len(TAB)
    start = (SEED * 12) % n
    return [TAB[(start + i) % n] for i in range(12)]


def edges_of(tab):
    """indices j where f2 jumps up by more than 30% to the next node or the step is unusually narrow"""
    E, f2 = tab[0], tab[2]
    out = []
    for j in range(len(E) - 1):
        if f2[j + 1] > 1.3 * f2[j] or (E[j + 1] - E[j]) < 2e-4 * E[j]:
            out.append(j)
    return out


def sf_scalar(atom, **kw):
    r = atom.xray.scattering_factors(**kw)
    return fl(r[0]), fl(r[1])


def q_sf(atom, x):
    f1, f2 = sf_scalar(atom, energy=x)
    return "(QSf %s %s %s)" % (ef(x), enc(f1), enc(f2))


def q_sfw(atom, w):
    f1, f2 = sf_scalar(atom, wavelength=w)
    return "(QSfW %s %s %s %s)" % (ef(w), ef(xsf.xray_energy(w)), enc(f1), enc(f2))


def q_vec(atom, xs, byw=False):
    arr = np.array(xs, dtype=float)
    r = atom.xray.scattering_factors(wavelength=arr) if byw else atom.xray.scattering_factors(energy=arr)
    return "(%s %s %s %s)" % ("QSfVecW" if byw else "QSfVec", enc([float(x) for x in xs]),
                              enc(np.asarray(r[0], dtype=float)), enc(np.asarray(r[1], dtype=float)))


def q_elsld(atom, x):
    r = atom.xray.sld(energy=x)
    return "(QElSld %s %s)" % (ef(x), enc([fl(r[0]), fl(r[1])]))


def energies_for(tab, full):
    """(nodes, interior points, outside points, near-node points) for one table"""
    E = tab[0]
    n = len(E)
    nan_rows = [j for j in range(n) if math.isnan(tab[1][j])]
    edge = edges_of(tab)
    nodes = {0, n - 1}
    nodes.update(rng.sample(range(n), min(n, 10 if not full else 40)))
    if nan_rows:
        nodes.update([nan_rows[-1], min(nan_rows[-1] + 1, n - 1)])
    for j in edge[:(6 if not full else 1000)]:
        nodes.update([j, j + 1])
    segs = set(rng.sample(range(n - 1), min(n - 1, 10 if not full else 40)))
    segs.update(edge[:(6 if not full else 1000)])
    if nan_rows:
        segs.add(nan_rows[-1])
        segs.add(max(nan_rows[-1] - 1, 0))
    inner = []
    for j in sorted(segs):
        a, b = float(E[j]), float(E[j + 1])
        if not a < b:
            continue
        inner.append((a + b) / 2)
        inner.append(a + (b - a) * rng.random())
    near = []
    for j in sorted(rng.sample(sorted(nodes), min(len(nodes), 4))) + [k for e in edge[:3] for k in (e, e + 1)]:
        x = float(E[j])
        if 0 < j < n - 1:
            near.extend([math.nextafter(x, 0.0), math.nextafter(x, INF)])
    outside = [math.nextafter(float(E[0]), 0.0), math.nextafter(float(E[-1]), INF), 0.005, 35.0, 0.0,
               float(E[0]) * 0.999, float(E[-1]) * 1.001]
    return [float(E[j]) for j in sorted(nodes)], inner, outside, near


def in_window(x, wins):
    return any(lo <= x <= hi for lo, hi in wins)


def element_cases(els):
    cases, meta = [], []
    stats = dict(nodes=0, interior=0, outside=0, near_node=0, wavelength=0, vector_points=0, rows=0, edges=0,
                 excluded_window=0)
    for k, el in enumerate(els):
        tab = el.xray.sftable
        rows = read_nff(el.symbol)
        wins = disorder_windows(rows)
        n = tab.shape[1]
        E = tab[0]
        nodes, inner, outside, near = energies_for(tab, TIER == "thorough")
        stats["edges"] += len(edges_of(tab))
        qs = ["(QLen %s)" % enc(int(n))]
        for i in sorted(set([0, 1, n // 2, n - 1] + rng.sample(range(n), 4))):
            qs.append("(QRow %d %s %s %s)" % (i, ef(tab[0][i]), ef(tab[1][i]), ef(tab[2][i])))
            stats["rows"] += 1
        # the window of out-of-order rows is excluded from the interpolation stream (reported separately)
        keep = lambda xs: [x for x in xs if not in_window(x, wins)]
        stats["excluded_window"] += sum(1 for x in nodes + inner + near if in_window(x, wins))
        nodes_k, inner_k, near_k = keep(nodes), keep(inner), keep(near)
        for x in nodes_k:
            qs.append(q_sf(el, x))
        for x in inner_k + near_k + outside:
            qs.append(q_sf(el, x))
        stats["nodes"] += len(nodes_k)
        stats["interior"] += len(inner_k)
        stats["near_node"] += len(near_k)
        stats["outside"] += len(outside)
        # wavelength= strictly inside the range
        ws = [float(xsf.xray_wavelength(x)) for x in rng.sample(inner_k, min(len(inner_k), 6))]
        ws += [w for w in (1.5418, 0.7107, 8.3402) if float(E[0]) < HC / w < float(E[-1])]
        ws = [w for w in ws if not in_window(float(xsf.xray_energy(w)), wins)]
        for w in ws:
            qs.append(q_sfw(el, w))
        stats["wavelength"] += len(ws)
        # vectors: mixed order, with nodes, interior and outside points; one long vector for a few elements
        vec = rng.sample(nodes_k, min(len(nodes_k), 4)) + rng.sample(inner_k, min(len(inner_k), 4)) + outside[:3]
        rng.shuffle(vec)
        qs.append(q_vec(el, vec))
        qs.append(q_vec(el, sorted(vec)))
        if ws:
            qs.append(q_vec(el, ws + [float(xsf.xray_wavelength(35.0))], byw=True))
        stats["vector_points"] += 2 * len(vec) + len(ws) + 1
        if k < (1 if TIER == "quick" else 8):
            long = [x for x in np.linspace(0.009, 31.0, n + 3).tolist() if not in_window(x, wins)]
            qs.append(q_vec(el, long))
            stats["vector_points"] += len(long)
        for x in rng.sample(inner_k, min(len(inner_k), 2)) + [nodes_k[len(nodes_k) // 2], 35.0]:
            qs.append(q_elsld(el, x))
        entries = ["(%s, true, [%s])" % (atom_term(el), ";\n ".join(qs))]
        names = [str(el)]
        nq = len(qs)
        # an ion and an isotope of the element use the element's table
        others = []
        if el.ions:
            others.append(el.ion[rng.choice(el.ions)])
        if el.isotopes:
            iso = el[rng.choice(el.isotopes)]
            others.append(iso)
            if el.ions:
                others.append(iso.ion[rng.choice(el.ions)])
        for a in others:
            xs = rng.sample(nodes_k, min(3, len(nodes_k))) + rng.sample(inner_k, min(3, len(inner_k))) + outside[:2]
            q2 = [q_sf(a, x) for x in xs] + [q_sfw(a, w) for w in ws[:2]] + [q_elsld(a, x) for x in xs[3:5]]
            entries.append("(%s, true, [%s])" % (atom_term(a), ";\n ".join(q2)))
            names.append(repr(a))
            nq += len(q2)
        cases.append("(CEl [%s])" % ";\n ".join(entries))
        meta.append(dict(kind="element", atom=", ".join(names), queries=nq))
    return cases, meta, stats


def notable_cases():
    """atoms without a table: (None, None)"""
    cases, meta = [], []
    atoms = [T[0]] + rng.sample(NOTAB, min(3, len(NOTAB))) + [T.D.ion[1], T.T.ion[1]]
    for a in atoms:
        r1 = a.xray.scattering_factors(energy=8.0)
        r2 = a.xray.scattering_factors(wavelength=1.5418)
        r3 = a.xray.sld(energy=8.0)
        qs = ["(QSf %s %s %s)" % (ef(8.0), enc(r1[0]), enc(r1[1])),
              "(QSfW %s %s %s %s)" % (ef(1.5418), ef(xsf.xray_energy(1.5418)), enc(r2[0]), enc(r2[1])),
              "(QElSld %s %s)" % (ef(8.0), enc([r3[0], r3[1]]))]
        has = a.xray.sftable is not None
        cases.append("(CEl [(%s, %s, [%s])])" % (atom_term(a), "true" if has else "false", "; ".join(qs)))
        meta.append(dict(kind="no-table", atom=repr(a), queries=len(qs)))
    return cases, meta


# ------------------------------------------------------------------ compound cases

class GPool(Pool):
    """atoms (elements, isotopes, ions, isotope ions) of a given set of elements"""

    def __init__(self, table, rng, els):
        Pool.__init__(self, table, rng)
        self.elements = list(els)

    def atom(self, kinds=("el", "el", "iso", "ion", "isoion"), zmax=118):
        r = self.rng
        for _ in range(100):
            el = r.choice(self.elements)
            kind = r.choice(kinds)
            a = el
            if kind in ("iso", "isoion"):
                if not el.isotopes:
                    continue
                a = el[r.choice(el.isotopes)]
            if kind in ("ion", "isoion"):
                if not el.ions:
                    continue
                a = a.ion[r.choice(el.ions)]
            return a
        return self.elements[0]


def flat_atoms(seq):
    for c, f in seq:
        if core.isatom(f):
            yield f
        else:
            yield from flat_atoms(f)


def sld_call(seq, dens, nat, byw, x):
    kw = dict(density=dens, natural_density=nat)
    kw["wavelength" if byw else "energy"] = x
    return attempt(xsf.xray_sld, seq, **kw)


def enc_pair(r):
    if isinstance(r, Exception):
        return enc(r)
    return enc([np.asarray(r[0], dtype=float).tolist() if np.ndim(r[0]) else fl(r[0]),
                np.asarray(r[1], dtype=float).tolist() if np.ndim(r[1]) else fl(r[1])])


def has_dt_ion(seq):
    return any(core.ision(a) and a.symbol in ("D", "T") for a in flat_atoms(seq))


def compound_group(els, n_comp, stats, extra=()):
    pool = GPool(T, rng, els)
    qs, descr = [], []
    E0, E1 = 0.01, 30.0
    todo = list(extra) + [None] * n_comp
    for seq in todo:
        if seq is None:
            seq = pool.nested(rng.randint(0, 1), exact=False, width=3)
        if rng.random() < 0.5:
            dens, nat = round(rng.uniform(0.05, 25.0), 3), None
        else:
            dens, nat = None, round(rng.uniform(0.05, 25.0), 3)
        hdr = "%s %s %s" % (struct_term(seq), optq_term(dens), optq_term(nat))
        descr.append(dict(compound=repr(seq), density=dens, natural_density=nat))
        kinds = set("isoion" if (core.ision(a) and core.isisotope(a.element)) else "ion" if core.ision(a)
                    else "iso" if core.isisotope(a) else "el" for a in flat_atoms(seq))
        for k in kinds:
            stats["atoms_" + k] = stats.get("atoms_" + k, 0) + 1
        # energies: generic, a node and an edge of one of the group's tables, outside the range
        tab = rng.choice(els).xray.sftable
        ed = edges_of(tab)
        xs = [round(rng.uniform(0.03, 29.0), 4), float(np.exp(rng.uniform(math.log(0.03), math.log(29.0)))),
              float(tab[0][rng.randrange(tab.shape[1])])]
        if ed:
            j = rng.choice(ed)
            xs.append(float(tab[0][j] + tab[0][j + 1]) / 2)
        xs = [x for x in xs if not (any(e.symbol == "Si" for e in els) and 1.8 <= x <= 1.87)]
        for x in xs:
            qs.append("(QSld %s false %s %s)" % (hdr, ef(x), enc_pair(sld_call(seq, dens, nat, False, x))))
            stats["sld"] += 1
        w = float(xsf.xray_wavelength(xs[0]))
        qs.append("(QSld %s true %s %s)" % (hdr, ef(w), enc_pair(sld_call(seq, dens, nat, True, w))))
        qs.append("(QSld %s false %s %s)" % (hdr, ef(35.0), enc_pair(sld_call(seq, dens, nat, False, 35.0))))
        stats["sld"] += 2
        if isinstance(sld_call(seq, dens, nat, False, xs[0]), Exception):
            continue            # raises on every path (reported by the direct statements)
        vec = xs[:2] + [0.004, 31.0]
        qs.append("(QSldVec %s false %s %s)" % (hdr, enc(vec), enc_pair(sld_call(seq, dens, nat, False, np.array(vec)))))
        stats["sld_vec"] += 1
        # refraction index
        for byw, x in ((False, xs[0]), (True, w), (False, xs[1])):
            kw = dict(density=dens, natural_density=nat)
            kw["wavelength" if byw else "energy"] = x
            r = attempt(xsf.index_of_refraction, seq, **kw)
            if not isinstance(r, Exception):
                r = complex(r)
                r = [r.real, r.imag]
            qs.append("(QRefr %s %s %s %s)" % (hdr, "true" if byw else "false", ef(x), enc(r)))
            stats["refraction"] += 1
        # mirror reflectivity on an angle x roughness grid
        x = xs[1] if xs[1] > 0.1 else xs[0]
        for deg in ANGLES:
            for sg in ROUGH:
                r = attempt(xsf.mirror_reflectivity, seq, density=dens, natural_density=nat, energy=x,
                            angle=deg, roughness=sg)
                if not isinstance(r, Exception):
                    r = float(np.asarray(r).reshape(-1)[0])
                    if not (0.0 <= r <= 1.0):
                        fail("C05:reflectivity-range", "mirror_reflectivity(%r, energy=%r, angle=%r, roughness=%r) = %r "
                             "is outside [0, 1]" % (seq, x, deg, sg, r), input=dict(compound=repr(seq), energy=x, angle=deg, roughness=sg))
                qs.append("(QMirror %s false %s %s %s %s)" % (hdr, ef(x), ef(deg), ef(sg), enc(r)))
                stats["mirror"] += 1
    zs = [el.number for el in els]
    return "(CGroup [%s] [%s])" % ("; ".join(str(z) for z in zs), ";\n ".join(qs)), dict(
        kind="compounds", elements=[el.symbol for el in els], queries=len(qs), compounds=descr)


ANGLES = [0.0, 0.05, 0.2, 1.0, 10.0, 45.0, 90.0] if TIER == "quick" else [0.0, 0.01, 0.05, 0.1, 0.2, 0.5, 1.0, 3.0, 10.0, 45.0, 89.0, 90.0]
ROUGH = [0.0, 3.0] if TIER == "quick" else [0.0, 1.0, 3.0, 20.0]


def compound_cases(els):
    cases, meta = [], []
    stats = dict(sld=0, sld_vec=0, refraction=0, mirror=0)
    pool = list(els)
    rng.shuffle(pool)
    ngroups = 3 if TIER == "quick" else max(1, len(pool) // 4)
    for g in range(ngroups):
        grp = pool[4 * g:4 * g + 4] or pool[:4]
        # hydrogen brings D and T and their ions
        if g == 0 and all(e.number != 1 for e in grp):
            grp = grp[:3] + [T.H]
        # the ions of the named hydrogen isotopes, always
        extra = [((1, T.D.ion[1]), (2.5, T.T.ion[-1]), (1, T.H))] if g == 0 else []
        c, m = compound_group(grp, (4 if g == 0 else 5) if TIER == "quick" else 8, stats, extra)
        cases.append(c)
        meta.append(m)
    return cases, meta, stats


# ------------------------------------------------------------------ f0

def f0_cases():
    q24 = 24 * math.pi
    if TIER == "quick":
        qs = [0.0, 0.5, 1.0, 2.0, 5.0, 10.0, 20.0, 40.0, 75.0, q24, math.nextafter(q24, INF), 76.0, 100.0]
    else:
        qs = [float(i) for i in range(0, 76)] + [0.5, q24, math.nextafter(q24, INF), math.nextafter(q24, 0.0), 76.0, 100.0, 1e3]
    cases, meta, n_with = [], [], 0
    for el in T:
        if el.number < 1:
            continue
        atoms = [el] + [el.ion[c] for c in el.ions]
        if el.number == 1:
            atoms += [T.D, T.D.ion[1], T.D.ion[-1], T.T.ion[-1]]
        for a in atoms:
            obs = []
            for q in qs:
                r = attempt(a.xray.f0, q)
                obs.append("(%s, %s)" % (ef(q), enc(r if isinstance(r, Exception) else float(r))))
            if not isinstance(r, Exception):
                n_with += 1
            cases.append("(CF0 %s [%s])" % (atom_term(a), "; ".join(obs)))
            meta.append(dict(kind="f0", atom=repr(a), queries=len(qs)))
    return cases, meta, dict(atoms=len(cases), with_coefficients=n_with, q_values=len(qs))


def conv_cases():
    xs = [1.0, 8.0, 8.04, 1.5418, 0.01, 30.0, 0.7107, 12.398419, 17.44, 1e-3, 123.456] + \
         [float(np.exp(rng.uniform(math.log(0.005), math.log(40.0)))) for _ in range(12)]
    cases = ["(CConv %s %s %s)" % (ef(x), ef(xsf.xray_wavelength(x)), ef(xsf.xray_energy(x))) for x in xs]
    cases.append("(CPi %s)" % ef(np.pi))
    return cases, [dict(kind="conversion", x=x) for x in xs] + [dict(kind="pi")]


# ------------------------------------------------------------------ the property's statements on the implementation

def direct_tables():
    """every .nff file: energies in order (the out-of-order witness is replayed on the code); the
    table covers 10 eV .. 30 keV and its absorption factor f2 is positive (what the sweep
    Proofs/C05SweepDefs.v table_props states), shown on the served values"""
    for el in TAB:
        rows = read_nff(el.symbol)
        fname = el.symbol.lower() + ".nff"
        neg = [r for r in rows if not r[2] > 0]
        if neg:
            x = neg[0][0] * 0.001
            fail("C05:%s-f2-not-positive" % fname,
                 "%s has f2 = %r <= 0 at %r eV (an absorption factor is positive): %s.xray.scattering_factors(energy=%r) = %r"
                 % (fname, neg[0][2], neg[0][0], el.symbol, x, sf_scalar(el, energy=x)),
                 input=dict(file=fname, row=list(neg[0])))
        lo, hi = min(r[0] for r in rows), max(r[0] for r in rows)
        if lo > 10.0 or hi < 30000.0:
            x = 0.0100001 if lo > 10.0 else 29.9999
            fail("C05:%s-range" % fname,
                 "%s covers only %r .. %r eV: %s.xray.scattering_factors(energy=%r) = %r inside [0.01, 30] keV"
                 % (fname, lo, hi, el.symbol, x, sf_scalar(el, energy=x)), input=dict(file=fname, first=lo, last=hi))
        bad = out_of_order(rows)
        if not bad:
            continue
        i = bad[0]
        # replay on the implementation: values at the two displaced nodes, and scalar against vector
        x_mid = (rows[i][0] + rows[i - 1][0]) / 2 * 0.001
        obs = []
        for j in (i - 1, i):
            x_node = rows[j][0] * 0.001
            got = sf_scalar(el, energy=x_node)
            if not (close(got[0], float("nan") if rows[j][1] == -9999.0 else rows[j][1], 0.0, rel=1e-12)
                    and close(got[1], rows[j][2], 0.0, rel=1e-12)):
                obs.append("%s.xray.scattering_factors(energy=%r) = %r but the table has (%r, %r) at %r eV"
                           % (el.symbol, x_node, got, rows[j][1], rows[j][2], rows[j][0]))
        sc = sf_scalar(el, energy=x_mid)
        vec = el.xray.scattering_factors(energy=np.array([rows[i - 2][0] * 0.001 if i >= 2 else x_mid, x_mid]))
        vc = (float(vec[0][1]), float(vec[1][1]))
        if not (close(sc[0], vc[0], 0.0, rel=1e-12) and close(sc[1], vc[1], 0.0, rel=1e-12)):
            obs.append("a scalar call at %r keV gives %r, the same point inside the vector [%r, %r] gives %r"
                       % (x_mid, sc, rows[i - 2][0] * 0.001, x_mid, vc))
        fail("C05:%s-rows-out-of-order" % fname,
             "%s data rows %d-%d (file lines %d-%d) are out of order: E = %r eV is followed by %r eV; numpy.interp "
             "needs increasing abscissae, so around them the result is not the interpolation of the tabulated values%s"
             % (fname, i, i + 1, i + 1, i + 2, rows[i - 1][0], rows[i][0], (": " + "; ".join(obs)) if obs else ""),
             input=dict(file=fname, rows=[rows[i - 1], rows[i]], energy_mid=x_mid, scalar=sc, in_vector=vc, observed=obs))


def direct_elements(els):
    """interpolation by hand between the bracketing rows, NaN outside, node values, energy= vs
    wavelength=, scalar vs vector"""
    for el in els:
        rows = read_nff(el.symbol)
        wins = disorder_windows(rows)
        tab = el.xray.sftable
        # the nodes are those of the file as read here, not of the table the library built from it
        # (rows whose f1 is the -9999 placeholder still carry an f2)
        E = sorted(set(float(r[0]) * 0.001 for r in rows))
        n = len(E)
        if len(tab[0]) != len(rows):
            fail("C05:table-rows:%s" % el.symbol, "%s.xray.sftable has %d rows, %s.nff has %d data rows" % (el.symbol, len(tab[0]), el.symbol.lower(), len(rows)),
                 input=dict(element=el.symbol))
        srt_rows = sorted(rows, key=lambda r: r[0])
        first_f1 = next((j for j, r in enumerate(srt_rows) if r[1] != -9999.0), 0)     # the first row that carries an f1
        js = sorted(set([0, 1, 2, n - 2] + [j for j in (first_f1 - 1, first_f1, first_f1 + 1) if 0 <= j < n - 1]
                        + rng.sample(range(n - 1), min(n - 1, 12)) + [j for j in edges_of(tab)[:6] if j < n - 1]))
        xs = []
        for j in js:
            xs += [E[j], (E[j] + E[j + 1]) / 2, E[j] + 0.25 * (E[j + 1] - E[j])]
        xs += [E[-1]]
        xs = [x for x in xs if not in_window(x, wins)]
        vec = el.xray.scattering_factors(energy=np.array(xs))
        for k, x in enumerate(xs):
            got = sf_scalar(el, energy=x)
            for col in (1, 2):
                want, scale = hand_interp(rows, col, x)
                if not close(got[col - 1], want, scale):
                    fail("C05:interp:%s@%r" % (el.symbol, x),
                         "%s.xray.scattering_factors(energy=%r)[%d] = %r, but the rows of %s.nff that bracket %r eV "
                         "give %r" % (el.symbol, x, col - 1, got[col - 1], el.symbol.lower(), x * 1000, want),
                         input=dict(element=el.symbol, energy=x, column=col, observed=got[col - 1], expected=want))
                v = float(vec[col - 1][k])
                if not close(v, got[col - 1], 0.0, rel=1e-13):
                    fail("C05:scalar-vector:%s@%r" % (el.symbol, x),
                         "%s.xray.scattering_factors(energy=%r)[%d]: scalar call gives %r, vector call gives %r"
                         % (el.symbol, x, col - 1, got[col - 1], v), input=dict(element=el.symbol, energy=x))
        # NaN outside the tabulated range
        lo, hi = min(r[0] for r in rows) * 0.001, max(r[0] for r in rows) * 0.001
        for x in (lo * (1 - 1e-9), hi * (1 + 1e-9), lo / 2, hi * 1.2, math.nextafter(E[0], 0.0), math.nextafter(E[-1], INF)):
            got = sf_scalar(el, energy=x)
            if not (math.isnan(got[0]) and math.isnan(got[1])):
                fail("C05:outside:%s" % el.symbol,
                     "%s.xray.scattering_factors(energy=%r) = %r outside the tabulated range [%r, %r] keV; NaN expected"
                     % (el.symbol, x, got, lo, hi), input=dict(element=el.symbol, energy=x, observed=list(got)))
        # energy= against the equivalent wavelength=, strictly inside
        for j in rng.sample(range(1, n - 2), 6):
            x = (E[j] + E[j + 1]) / 2
            if in_window(x, wins):
                continue
            a = sf_scalar(el, energy=x)
            b = sf_scalar(el, wavelength=HC / x)
            for col in (0, 1):
                scale = hand_interp(rows, col + 1, x)[1]
                if not close(a[col], b[col], 0.0 if math.isnan(scale) else scale, rel=1e-9):
                    fail("C05:energy-wavelength:%s@%r" % (el.symbol, x),
                         "%s.xray.scattering_factors: energy=%r gives %r, wavelength=%r (= 12.398419/E) gives %r"
                         % (el.symbol, x, a, HC / x, b), input=dict(element=el.symbol, energy=x, wavelength=HC / x))


def direct_package_level():
    """periodictable.xray_sld is the documented front door: same arguments, same result as xsf.xray_sld"""
    for comp, kw in (("SiO2", dict(density=2.2, energy=8.0)), ("D2O", dict(natural_density=1.0, wavelength=1.5418)),
                     ("Na{+}Cl{-}", dict(density=2.16, energy=np.array([0.5, 8.0, 17.4]))), ("Fe2O3", dict(density=5.24, energy=0.03))):
        a = attempt(periodictable.xray_sld, comp, **kw)
        b = attempt(xsf.xray_sld, comp, **kw)
        if isinstance(a, Exception) or isinstance(b, Exception) or repr(a) != repr(b):
            fail("C05:package-level-call", "periodictable.xray_sld(%r, %s) = %r, periodictable.xsf.xray_sld gives %r"
                 % (comp, ", ".join("%s=%r" % kv for kv in kw.items()), a, b), input=dict(compound=comp))


def direct_private_atoms():
    """a compound of atoms of a private table is computed with those atoms: SLD = r_e N_A density / mass x sum(n f), with the mass
    of the private atoms (a private boron enriched in B-10 is lighter, so the same density holds more formula units)"""
    from periodictable import mass as _mass, density as _density
    try:
        priv = core.PeriodicTable("verif_c05_private")
        _mass.init(priv); _density.init(priv); xsf.init(priv)
        priv.B._mass = 10.2
        fp, fq = formulas.formula("B4C", table=priv), formulas.formula("B4C")
        a = xsf.xray_sld(fp, density=2.5, energy=8.0)
        b = xsf.xray_sld(fq, density=2.5, energy=8.0)
        want = [float(b[0]) * fq.mass / fp.mass, float(b[1]) * fq.mass / fp.mass]
        if not (close(float(a[0]), want[0], abs(want[0]), rel=1e-9) and close(float(a[1]), want[1], abs(want[1]), rel=1e-9)):
            fail("C05:private-table-atoms", "xray_sld(formula('B4C', table=T), density=2.5, energy=8) with T.B._mass = 10.2 gives %r; "
                 "r_e N_A density/mass sum(n f) with the masses of T's atoms gives %r" % ((float(a[0]), float(a[1])), want),
                 input=dict(compound="B4C on a private table with B mass 10.2"))
    except Exception as e:  # noqa
        fail("C05:private-table-atoms", "xray_sld on a formula of private-table atoms raised %s: %s" % (type(e).__name__, e),
             input=dict(compound="B4C on a private table"))


def direct_single_element_density():
    """a one-element compound at a density of the caller's choosing (diamond, amorphous Si, a porous film): the SLD is linear in
    that density and follows r_e N_A density/mass sum(n f) like any compound"""
    for sym, rho in (("C", 3.52), ("Si", 2.2), ("Au", 9.65), ("Fe", 3.9), ("Cu2", 4.0)):
        a = attempt(xsf.xray_sld, sym, density=rho, energy=8.0)
        b = attempt(xsf.xray_sld, sym, density=2 * rho, energy=8.0)
        f = formulas.formula(sym)
        el = list(f.atoms)[0]
        f1, f2 = sf_scalar(T[el.number], energy=8.0)
        k = R_E * N_A * rho / el.mass * 1e-8
        ok = not isinstance(a, Exception) and not isinstance(b, Exception)
        if ok:
            ok = close(float(a[0]), k * f1, abs(k * f1), rel=1e-6) and close(float(a[1]), k * f2, abs(k * f2), rel=1e-6) and \
                close(float(b[0]), 2 * float(a[0]), abs(2 * float(a[0])), rel=1e-12)
        if not ok:
            fail("C05:single-element-density", "xray_sld(%r, density=%r, energy=8.0) = %r, at twice the density %r; r_e N_A density/mass f = %r"
                 % (sym, rho, a, b, (k * f1, k * f2)), input=dict(compound=sym, density=rho, energy=8.0))


def direct_conversion():
    for x in (0.5, 1.5418, 8.04, 30.0):
        w = float(xsf.xray_wavelength(x))
        e = float(xsf.xray_energy(w))
        if not close(w, HC / x, 0.0, rel=1e-6):
            fail("C05:xray_wavelength", "xray_wavelength(%r) = %r, h c / E = %r" % (x, w, HC / x), input=dict(energy=x))
        if not close(e, x, 0.0, rel=1e-14):
            fail("C05:energy-wavelength-roundtrip", "xray_energy(xray_wavelength(%r)) = %r" % (x, e), input=dict(energy=x))


def natural_variant(seq):
    """the same compound with every isotope replaced by its element (ions keep their charge)"""
    out = []
    for c, f in seq:
        if core.isatom(f):
            base = T[f.number]
            out.append((c, base.ion[f.charge] if core.ision(f) else base))
        else:
            out.append((c, natural_variant(f)))
    return tuple(out)


def direct_compounds(els):
    """SLD formula by hand, linearity in density, isotope independence at equal natural density,
    refraction index formula, scalar vs vector, energy vs wavelength"""
    pool = GPool(T, rng, els)
    for t in range(14 if TIER == "quick" else 60):
        seq = pool.nested(rng.randint(0, 1), exact=False, width=3)
        atoms = list(flat_atoms(seq))
        rho = round(rng.uniform(0.1, 20.0), 3)
        x = round(rng.uniform(0.05, 29.0), 3)
        if any(a.symbol == "Si" for a in atoms) and 1.8 <= x <= 1.87:
            continue
        r = attempt(xsf.xray_sld, seq, density=rho, energy=x)
        if isinstance(r, Exception):
            dt = [a for a in atoms if core.ision(a) and a.symbol in ("D", "T")]
            if dt:
                fail("C05:isotope-ion-no-table",
                     "xray_sld(%r, density=%r, energy=%r) raises %s: the ion of a named hydrogen isotope looks for "
                     "%s.nff; the same compound with H in its place has an SLD" % (seq, rho, x, type(r).__name__, dt[0].symbol.lower()),
                     input=dict(compound=repr(seq), density=rho, energy=x, error=repr(r)))
            else:
                fail("C05:xray_sld-raises", "xray_sld(%r, density=%r, energy=%r) raises %r" % (seq, rho, x, r),
                     input=dict(compound=repr(seq), density=rho, energy=x))
            continue
        r = (float(r[0]), float(r[1]))
        # documented formula from the element factors
        f = formulas.formula(seq)
        mass = sum(a.mass * c for a, c in f.atoms.items())
        s1 = sum(sf_scalar(T[a.number], energy=x)[0] * c for a, c in f.atoms.items())
        s2 = sum(sf_scalar(T[a.number], energy=x)[1] * c for a, c in f.atoms.items())
        a1 = sum(abs(sf_scalar(T[a.number], energy=x)[0] * c) for a, c in f.atoms.items())
        k = R_E * N_A * rho / mass * 1e-8
        for got, want, scale, nm in ((r[0], k * s1, k * a1, "rho"), (r[1], k * s2, k * s2, "irho")):
            if not close(got, want, scale, rel=1e-6):
                fail("C05:sld-formula", "xray_sld(%r, density=%r, energy=%r) %s = %r; r_e N_A density/mass 1e-8 sum(n f) = %r"
                     % (seq, rho, x, nm, got, want), input=dict(compound=repr(seq), density=rho, energy=x, observed=got, expected=want))
        # linear in density
        kk = rng.choice([2.0, 0.5, 3.7, 10.0])
        r2 = xsf.xray_sld(seq, density=kk * rho, energy=x)
        for i in (0, 1):
            if not close(float(r2[i]), kk * r[i], abs(kk * r[i]), rel=1e-12):
                fail("C05:density-linearity", "xray_sld(%r, energy=%r): density %r gives %r, density %r gives %r"
                     % (seq, x, rho, r[i], kk * rho, float(r2[i])), input=dict(compound=repr(seq), energy=x, density=rho, factor=kk))
        # scalar vs vector, energy vs wavelength
        rv = xsf.xray_sld(seq, density=rho, energy=np.array([0.02, x, 29.5]))
        rw = xsf.xray_sld(seq, density=rho, wavelength=HC / x)
        for i in (0, 1):
            if not close(float(rv[i][1]), r[i], 0.0, rel=1e-13):
                fail("C05:sld-scalar-vector", "xray_sld(%r, density=%r): energy=%r gives %r, inside a vector %r"
                     % (seq, rho, x, r[i], float(rv[i][1])), input=dict(compound=repr(seq), density=rho, energy=x))
            if not close(float(rw[i]), r[i], k * a1, rel=1e-9):
                fail("C05:sld-energy-wavelength", "xray_sld(%r, density=%r): energy=%r gives %r, wavelength=%r gives %r"
                     % (seq, rho, x, r[i], HC / x, float(rw[i])), input=dict(compound=repr(seq), density=rho, energy=x))
        # isotope independence at equal natural density
        nat = natural_variant(seq)
        ra = attempt(xsf.xray_sld, seq, natural_density=rho, energy=x)
        rb = attempt(xsf.xray_sld, nat, natural_density=rho, energy=x)
        bad = isinstance(ra, Exception) or isinstance(rb, Exception) or not all(
            close(float(ra[i]), float(rb[i]), 0.0, rel=1e-9) for i in (0, 1))
        if bad:
            isoion = [a for a in atoms if core.ision(a) and core.isisotope(a.element)]
            sig = "C05:isotope-independence:isotope-ion" if isoion else "C05:isotope-independence"
            fail(sig, "xray_sld(%r, natural_density=%r, energy=%r) = %s but with the natural elements %r it is %s%s"
                 % (seq, rho, x, ra if isinstance(ra, Exception) else (float(ra[0]), float(ra[1])), nat,
                    rb if isinstance(rb, Exception) else (float(rb[0]), float(rb[1])),
                    " (natural_mass_ratio takes the isotope's mass as the natural mass of an isotope ion)" if isoion else ""),
                 input=dict(compound=repr(seq), natural=repr(nat), natural_density=rho, energy=x))
        # refraction index
        n_ = complex(xsf.index_of_refraction(seq, density=rho, energy=x))
        lam = HC / x
        want = 1 - lam ** 2 / (2 * math.pi) * complex(r[0], r[1]) * 1e-6
        if not (close(1 - n_.real, 1 - want.real, 0.0, rel=1e-5) and close(n_.imag, want.imag, 0.0, rel=1e-5)):
            fail("C05:refraction-formula", "index_of_refraction(%r, density=%r, energy=%r) = %r; 1 - lambda^2/(2 pi) (rho + i irho) 1e-6 = %r"
                 % (seq, rho, x, n_, want), input=dict(compound=repr(seq), density=rho, energy=x))
        # the end nodes of the tables belong to the tabulated range: refraction and reflectivity there follow the same
        # formula on the SLD at that energy (energy -> wavelength -> energy must land on the node again)
        for xe in (30.0, 0.03):
            re_ = attempt(xsf.xray_sld, seq, density=rho, energy=xe)
            ne_ = attempt(xsf.index_of_refraction, seq, density=rho, energy=xe)
            me_ = attempt(xsf.mirror_reflectivity, seq, density=rho, energy=xe, angle=0.2)
            if isinstance(re_, Exception) or math.isnan(float(re_[0])) or math.isnan(float(re_[1])):
                continue        # (an element of the compound has no f1 at this node: nothing to compare)
            want_e = 1 - (HC / xe) ** 2 / (2 * math.pi) * complex(float(re_[0]), float(re_[1])) * 1e-6
            ok_e = not isinstance(ne_, Exception) and not isinstance(me_, Exception)
            if ok_e:
                ne_ = complex(np.asarray(ne_).reshape(-1)[0])
                me1 = float(np.asarray(me_).reshape(-1)[0])
                ok_e = close(1 - ne_.real, 1 - want_e.real, 0.0, rel=1e-5) and close(ne_.imag, want_e.imag, 0.0, rel=1e-5) and 0.0 <= me1 <= 1.0
            if not ok_e:
                fail("C05:refraction-at-end-node", "index_of_refraction(%r, density=%r, energy=%r) = %r, mirror_reflectivity(.., angle=0.2) = %r; "
                     "xray_sld at that energy is %r, so 1 - lambda^2/(2 pi) (rho + i irho) 1e-6 = %r"
                     % (seq, rho, xe, ne_, me_, (float(re_[0]), float(re_[1])), want_e), input=dict(compound=repr(seq), density=rho, energy=xe))
        # the same through natural_density=: the refraction index of the labelled compound is that of its natural
        # twin at the same natural density, and follows the formula on the SLD of that call
        if not bad:
            na = attempt(xsf.index_of_refraction, seq, natural_density=rho, energy=x)
            nb = attempt(xsf.index_of_refraction, nat, natural_density=rho, energy=x)
            want = 1 - lam ** 2 / (2 * math.pi) * complex(float(ra[0]), float(ra[1])) * 1e-6
            ok = not isinstance(na, Exception) and not isinstance(nb, Exception)
            if ok:
                na, nb = complex(np.asarray(na).reshape(-1)[0]), complex(np.asarray(nb).reshape(-1)[0])
                ok = close(1 - na.real, 1 - nb.real, 0.0, rel=1e-9) and close(na.imag, nb.imag, 0.0, rel=1e-9) and \
                    close(1 - na.real, 1 - want.real, 0.0, rel=1e-5) and close(na.imag, want.imag, 0.0, rel=1e-5)
            if not ok:
                fail("C05:refraction-natural-density", "index_of_refraction(%r, natural_density=%r, energy=%r) = %r; with the natural "
                     "elements %r it is %r; 1 - lambda^2/(2 pi) (rho + i irho) 1e-6 on xray_sld of the same call = %r"
                     % (seq, rho, x, na, nat, nb, want), input=dict(compound=repr(seq), natural=repr(nat), natural_density=rho, energy=x))
            for ang in (0.1, 0.4):
                ma = attempt(xsf.mirror_reflectivity, seq, natural_density=rho, energy=x, angle=ang)
                mb = attempt(xsf.mirror_reflectivity, nat, natural_density=rho, energy=x, angle=ang)
                one = lambda v: float(np.asarray(v).reshape(-1)[0])
                if isinstance(ma, Exception) or isinstance(mb, Exception) or not close(one(ma), one(mb), 0.0, rel=1e-8):
                    fail("C05:reflectivity-natural-density", "mirror_reflectivity(%r, natural_density=%r, energy=%r, angle=%r) = %r; with the "
                         "natural elements %r it is %r" % (seq, rho, x, ang, ma, nat, mb),
                         input=dict(compound=repr(seq), natural=repr(nat), natural_density=rho, energy=x, angle=ang))


def direct_isotope_ion_witness():
    """replay of the isotope-ion witness of Proofs (isotope_independent_refuted) on the code"""
    for a, b in ((("Li", 6, 1), ("F", 0, -1)),):
        iso = T.Li[6].ion[1]
        nat = T.Li.ion[1]
        fm = T.F.ion[-1]
        ra = xsf.xray_sld(((1, iso), (1, fm)), natural_density=2.635, energy=8.0)
        rb = xsf.xray_sld(((1, nat), (1, fm)), natural_density=2.635, energy=8.0)
        if not close(float(ra[0]), float(rb[0]), 0.0, rel=1e-9):
            fail("C05:isotope-independence:isotope-ion",
                 "xray_sld('Li[6]{+}F{-}', natural_density=2.635, energy=8.0) = %r but 'Li{+}F{-}' at the same natural "
                 "density gives %r: natural_mass_ratio takes the isotope's mass as the natural mass of an isotope ion"
                 % ((float(ra[0]), float(ra[1])), (float(rb[0]), float(rb[1]))),
                 input=dict(compound="Li[6]{+}F{-}", natural="Li{+}F{-}", natural_density=2.635, energy=8.0))
    r = attempt(xsf.xray_sld, ((1, T.D.ion[1]), (1, T.Cl.ion[-1])), density=1.0, energy=8.0)
    if isinstance(r, Exception):
        fail("C05:isotope-ion-no-table",
             "xray_sld('D{+}Cl{-}', density=1.0, energy=8.0) raises %s(%s): the ion of a named hydrogen isotope looks for d.nff; "
             "'H{+}Cl{-}' has an SLD" % (type(r).__name__, r), input=dict(compound="D{+}Cl{-}", density=1.0, energy=8.0))


def direct_f0():
    wk = read_waaskirf()
    q24 = 24 * math.pi
    for z, sym, a, c, b in wk:
        base, ch = sym_charge(sym)
        if base not in [e.symbol for e in T]:
            continue            # valence entries (Cval, Siva) are not reachable from an atom
        el = T.symbol(base)
        if ch and ch not in el.ions:
            continue
        atom = el.ion[ch] if ch else el
        v0 = attempt(atom.xray.f0, 0.0)
        if isinstance(v0, Exception) or not abs(float(v0) - (z - ch)) <= 0.05:
            fail("C05:f0-at-zero:%s" % sym, "%r.xray.f0(0) = %r, electron count Z - charge = %d" % (atom, v0, z - ch),
                 input=dict(atom=repr(atom), Q=0.0))
        want = sum(ai * math.exp(-bi * (1.0 / (4 * math.pi)) ** 2) for ai, bi in zip(a, b)) + c
        v1 = attempt(atom.xray.f0, 1.0)
        if isinstance(v1, Exception) or not close(float(v1), want, sum(abs(t) for t in a) + abs(c), rel=1e-9):
            fail("C05:f0-formula:%s" % sym, "%r.xray.f0(1.0) = %r; sum a_i exp(-b_i (Q/4pi)^2) + c from the data line = %r"
                 % (atom, v1, want), input=dict(atom=repr(atom), Q=1.0))
        for q in (q24 * 1.0001, 80.0, 1e3):
            v = attempt(atom.xray.f0, q)
            if isinstance(v, Exception) or not math.isnan(float(v)):
                fail("C05:f0-beyond-range:%s" % sym, "%r.xray.f0(%r) = %r beyond Q = 24 pi; NaN expected" % (atom, q, v),
                     input=dict(atom=repr(atom), Q=q))
        # the end of the fitted range itself (Q = 24 pi, i.e. sin(theta)/lambda = 6) still belongs to it
        for q in (q24, 40.0):
            wq = sum(ai * math.exp(-bi * (q / (4 * math.pi)) ** 2) for ai, bi in zip(a, b)) + c
            v = attempt(atom.xray.f0, q)
            if isinstance(v, Exception) or math.isnan(float(v)) or not close(float(v), wq, sum(abs(t) for t in a) + abs(c), rel=1e-9):
                fail("C05:f0-inside-range:%s" % sym, "%r.xray.f0(%r) = %r; sum a_i exp(-b_i (Q/4pi)^2) + c from the data line = %r "
                     "(Q within [0, 24 pi])" % (atom, q, v, wq), input=dict(atom=repr(atom), Q=q))
        v = attempt(atom.xray.f0, q24 * 0.9999)
        if isinstance(v, Exception) or math.isnan(float(v)):
            fail("C05:f0-inside-range:%s" % sym, "%r.xray.f0(%r) = %r inside the fitted range" % (atom, q24 * 0.9999, v),
                 input=dict(atom=repr(atom), Q=q24 * 0.9999))


# ------------------------------------------------------------------ main

def main():
    els = pick_elements()
    cases, meta = [], []
    c, m, st_el = element_cases(els)
    cases += c
    meta += m
    c, m = notable_cases()
    cases += c
    meta += m
    c, m, st_c = compound_cases(els)
    cases += c
    meta += m
    c, m, st_f0 = f0_cases()
    cases += c
    meta += m
    c, m = conv_cases()
    cases += c
    meta += m

    direct_tables()
    direct_isotope_ion_witness()
    direct_elements(els)
    direct_conversion()
    direct_compounds(els + [T.H])
    direct_f0()
    direct_package_level()
    direct_private_atoms()
    direct_single_element_density()

    json.dump(dict(cases=cases, meta=meta, direct_fails=direct_fails,
                   stats=dict(elements=[e.symbol for e in els], tables=len(TAB), element_stream=st_el,
                              compound_stream=st_c, f0=st_f0, tier=TIER, seed=SEED)), sys.stdout)


main()
