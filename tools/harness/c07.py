"""C07 harness: every element and isotope of the public table and of a freshly initialised
private table (14 neutron fields, nuclear_spin, has_sld(), presence of an energy table),
every node of every energy-dependent table through scattering_by_wavelength, and the number of
atoms that hold a neutron record.  Also evaluates the property's own statements directly on the
implementation against a third, trivial reading of the table text (split + regex): these are the
failing inputs used by the verdict protocol."""
import json, sys, re, math
from pyenc import enc, attempt, zlit
import periodictable
from periodictable import core, mass, density, nsf, nsf_tables

FIELDS = ["b_c", "bp", "bm", "b_c_i", "bp_i", "bm_i", "coherent", "incoherent", "total", "absorption",
          "abundance"]
OBS = FIELDS + ["nuclear_spin", "is_energy_dependent", "b_c_complex", "has_sld", "nsf_table"]


def observe(atom):
    n = atom.neutron
    out = [attempt(getattr, n, f) for f in FIELDS]
    out.append(attempt(getattr, atom, "nuclear_spin"))
    out.append(attempt(getattr, n, "is_energy_dependent"))
    out.append(attempt(getattr, n, "b_c_complex"))
    out.append(attempt(n.has_sld))
    t = attempt(getattr, n, "nsf_table")
    out.append(t if isinstance(t, Exception) else (t is not None))
    return out


def atoms_of(table):
    for el in table:
        yield el.number, 0, el
        for iso in el:
            yield el.number, iso.isotope, iso


def energy_atoms(table):
    for (name, iso), values in nsf_tables.ENERGY_DEPENDENT_TABLES.items():
        el = getattr(table, name)
        yield name, iso, (el if iso is None else el[iso]), values


def sweep(tname, table):
    cases, meta = [], []
    # the "no data" placeholder: a class attribute today; any atom of Z = 0 serves it otherwise
    default = core.Element.__dict__.get("neutron", None)
    if default is None or isinstance(default, property):
        default = getattr(table[0], "neutron", None)
    n_rec = 0
    for z, a, atom in atoms_of(table):
        cases.append("(CAtom %s %s [%s])" % (zlit(z), zlit(a), "; ".join(enc(v) for v in observe(atom))))
        meta.append([tname, "atom", z, a])
        if atom.neutron is not default:
            n_rec += 1
    n_nodes = 0
    for name, iso, atom, values in energy_atoms(table):
        z = atom.number
        for j, row in enumerate(values):
            e = row[0]
            w = nsf.neutron_wavelength(e * 1000)           # eV -> meV -> Angstrom, the public conversion
            b = attempt(lambda: atom.neutron.scattering_by_wavelength(w)[0])
            if isinstance(b, Exception):
                re_, im_ = b, b
            else:
                b = complex(b)
                re_, im_ = b.real, b.imag
            cases.append("(CNode %s %s %d %s %s %s)" % (zlit(z), zlit(iso or 0), j, enc(e), enc(re_), enc(im_)))
            meta.append([tname, "node", z, iso or 0, j])
            n_nodes += 1
    cases.append("(CCount %d)" % n_rec)
    meta.append([tname, "count", n_rec, 0])
    return cases, meta, n_rec, n_nodes


# ------------------------------------------------------------------ third reader + direct statements

NUM = re.compile(r"<?\s*([-+]?(?:[0-9]+\.?[0-9]*|\.[0-9]+)(?:[eE][-+]?[0-9]+)?)")
NAME = re.compile(r"([0-9]+)-([A-Za-z]+)(?:-([0-9]+))?$")


def bare(txt):
    """uncertainty dropped, '<' and '*' read as the bare number, blank as missing"""
    if txt.strip() == "":
        return None
    m = NUM.match(txt)
    return float(m.group(1)) if m else "unreadable"


def third_reader():
    rows, order = {}, []
    for line in nsf.nsftable.split("\n"):
        f = line.split(",")
        m = NAME.match(f[0])
        z, sym, a = int(m.group(1)), m.group(2), int(m.group(3) or 0)
        d = dict(name=f[0], symbol=sym, b_c=bare(f[3]), bp=bare(f[4]), bm=bare(f[5]),
                 is_energy_dependent=(f[6] == "E"), coherent=bare(f[7]), incoherent=bare(f[8]),
                 total=bare(f[9]), absorption=bare(f[10]), b_c_i=None, bp_i=None, bm_i=None,
                 abundance=(0.0 if a == 0 else (0.0 if " " in f[1] else bare(f[1]))),
                 nuclear_spin=(f[2] if a else None), ncols=len(f))
        rows[(z, a)] = d
        order.append((z, a))
    imag = {}
    for line in nsf.nsftableI.split("\n"):
        f = line.split(",")
        m = NAME.match(f[0])
        imag[(int(m.group(1)), int(m.group(3) or 0))] = (f[0], [bare(x) for x in f[1:4]])
    return rows, order, imag


def same(obs, exp, exact=True):
    if exp is None:
        return obs is None
    if obs is None or isinstance(obs, Exception) or isinstance(obs, (str, bool)):
        return False
    try:
        o = float(obs)
    except (TypeError, ValueError):
        return False
    if exact:
        return o == exp
    return abs(o - exp) <= 1e-12 * max(abs(o), abs(exp))


def direct(tname, table):
    """Property statements evaluated on the implementation.  Returns failing inputs."""
    rows, order, imag = third_reader()
    fails = []

    cur = [None, None]          # (z, a) of the atom under examination, for the verdict's matching

    def fail(sig, what, **kw):
        fails.append(dict(signature=sig, what=what, table=tname, z=cur[0], a=cur[1], **kw))

    by_z = {}
    for (z, a) in order:
        by_z.setdefault(z, []).append(a)
    XE, EU = table.Xe.number, table.Eu.number
    atoms = {(z, a): atom for z, a, atom in atoms_of(table)}

    # rows: every listed element/isotope reports the row's cells
    for (z, a) in order:
        cur[:] = [z, a]
        row = rows[(z, a)]
        name = row["name"]
        atom = atoms.get((z, a))
        if atom is None or table[z].symbol != row["symbol"]:
            fail("C07:row:%s" % name, "row %s has no corresponding atom in the table" % name, atom=name)
            continue
        n = atom.neutron
        exp = dict(row)
        computed = set()
        # the two documented gap fills of nsf.init
        if (z, a) == (XE, 0) and exp["total"] is None and None not in (exp["coherent"], exp["incoherent"]):
            exp["total"] = exp["coherent"] + exp["incoherent"]
            computed.add("total")
        if (z, a) == (EU, 151) and exp["b_c"] is None and exp["coherent"] is not None:
            exp["b_c"] = math.sqrt(exp["coherent"] * 100 / (4 * math.pi))
            computed.add("b_c")
        if (z, a) in imag:
            exp["b_c_i"], exp["bp_i"], exp["bm_i"] = imag[(z, a)][1]
        for f in FIELDS:
            obs = attempt(getattr, n, f)
            if not same(obs, exp[f], exact=f not in computed):
                fail("C07:%s:%s" % (f, name), "%s.neutron.%s is %r, row %s of the table says %r"
                     % (atom_repr(atom), f, obs, name, exp[f]), atom=atom_repr(atom), field=f,
                     observed=repr(obs), expected=exp[f])
        if attempt(getattr, n, "is_energy_dependent") is not exp["is_energy_dependent"]:
            fail("C07:is_energy_dependent:%s" % name, "%s.neutron.is_energy_dependent is %r, the row's flag says %r"
                 % (atom_repr(atom), attempt(getattr, n, "is_energy_dependent"), exp["is_energy_dependent"]),
                 atom=atom_repr(atom), field="is_energy_dependent")
        if a:
            sp = attempt(getattr, atom, "nuclear_spin")
            if sp != exp["nuclear_spin"]:
                fail("C07:nuclear_spin:%s" % name, "%s.nuclear_spin is %r, the row says %r"
                     % (atom_repr(atom), sp, exp["nuclear_spin"]), atom=atom_repr(atom), field="nuclear_spin")
        # complex b_c = b_c - i absorption/(2000*1.798), on the values the atom reports
        bcc = attempt(getattr, n, "b_c_complex")
        b_c, ab = attempt(getattr, n, "b_c"), attempt(getattr, n, "absorption")
        ok = isinstance(bcc, complex) and isinstance(ab, (int, float))
        if ok:
            want_im = -ab / (2000 * 1.798)
            ok = same(bcc.imag, want_im, exact=False) if want_im != 0 else bcc.imag == 0
            if b_c is None:
                ok = ok and math.isnan(bcc.real)
            else:
                ok = ok and (not isinstance(b_c, Exception)) and same(bcc.real, float(b_c), exact=False)
        if not ok:
            fail("C07:b_c_complex:%s" % name,
                 "%s.neutron.b_c_complex is %r but b_c=%r and absorption=%r, so b_c - i*absorption/(2000*1.798) = %s"
                 % (atom_repr(atom), bcc, b_c, ab,
                    repr(complex(b_c, -ab / 3596.0)) if isinstance(ab, (int, float)) and isinstance(b_c, (int, float)) else "?"),
                 atom=atom_repr(atom), field="b_c_complex", observed=repr(bcc))

    # imaginary table rows name atoms of the main table
    for (z, a), (name, _) in imag.items():
        cur[:] = [z, a]
        if (z, a) not in rows:
            fail("C07:imaginary-row:%s" % name, "imaginary-table row %s has no row in the main table" % name, atom=name)

    # single-isotope elements report their isotope's record; atoms not in the table have no SLD
    for z, a, atom in atoms_of(table):
        if (z, a) in rows:
            continue
        cur[:] = [z, a]
        n = atom.neutron
        isos = by_z.get(z, [])
        if a == 0 and len(isos) == 1:
            iso = atoms[(z, isos[0])]
            bad = [f for f in FIELDS + ["is_energy_dependent", "b_c_complex"]
                   if not same_value(attempt(getattr, n, f), attempt(getattr, iso.neutron, f))]
            if bad:
                fail("C07:single-isotope:%s" % atom.symbol, "%s has the single isotope %r in the table but reports a different %s"
                     % (atom.symbol, iso, ", ".join(bad)), atom=atom.symbol, field=bad[0])
            continue
        has = attempt(n.has_sld)
        if has is not False:
            if a == 0 and len(isos) > 1:
                # the recorded finding is that the element serves the record of its FIRST isotope row; which of its
                # isotopes the record really is, is looked up (another isotope's record is another violation)
                whose = [i for i in isos if all(same_value(attempt(getattr, n, f), attempt(getattr, atoms[(z, i)].neutron, f))
                                                for f in ("b_c", "absorption", "total"))]
                fail("C07:element-without-row-takes-first-of-several-isotopes:%s" % atom.symbol if whose[:1] == isos[:1] else
                     "C07:element-without-row-serves-isotope:%s-%s" % (atom.symbol, whose[0] if whose else "none-of-them"),
                     "%s has no row of its own and %d isotope rows (%s), yet %s.neutron.has_sld() is %r and it reports "
                     "b_c=%r of %s-%d" % (atom.symbol, len(isos), ",".join(str(i) for i in isos), atom.symbol, has,
                                          attempt(getattr, n, "b_c"), atom.symbol, whose[0] if whose else 0),
                     atom=atom.symbol, field="has_sld", observed=repr(has), expected=False)
            else:
                fail("C07:absent-atom-has-sld:%s" % atom_repr(atom), "%s is not in the neutron table but has_sld() is %r"
                     % (atom_repr(atom), has), atom=atom_repr(atom), field="has_sld", observed=repr(has), expected=False)

    # every node of every energy-dependent table returns exactly the tabulated complex value
    for name, iso, atom, values in energy_atoms(table):
        tag = name if iso is None else "%s-%d" % (name, iso)
        cur[:] = [atom.number, iso or 0]
        es = [row[0] for row in values]
        if any(not (x < y) for x, y in zip(es, es[1:])):
            fail("C07:energy-table-order:%s" % tag, "energies of the %s table are not strictly increasing" % tag, atom=tag)
        for j, row in enumerate(values):
            w = nsf.neutron_wavelength(row[0] * 1000)
            b = attempt(lambda: complex(atom.neutron.scattering_by_wavelength(w)[0]))
            if isinstance(b, Exception) or not (b.real == row[1] and b.imag == row[2]):
                fail("C07:energy-node:%s" % tag, "%s at %r eV (node %d) returns %r, tabulated %r"
                     % (tag, row[0], j, b, complex(row[1], row[2])), atom=tag, node=j, energy=row[0], observed=repr(b))
                break
    return fails


def same_value(x, y):
    if isinstance(x, complex) and isinstance(y, complex):
        return (x.real == y.real or (math.isnan(x.real) and math.isnan(y.real))) and x.imag == y.imag
    if isinstance(x, Exception) or isinstance(y, Exception):
        return False
    return x == y or (x is None and y is None)


def atom_repr(atom):
    return "%s[%d]" % (atom.symbol, atom.isotope) if hasattr(atom, "isotope") else atom.symbol


def lu_natural_note(table):
    """advisory (outside the property's domain): natural Lu is the abundance mixture at Lu-176 nodes"""
    lu, l5, l6 = table.Lu, table.Lu[175], table.Lu[176]
    wl, b176 = l6.neutron.nsf_table
    want = (l5.neutron.b_c_complex * l5.abundance + b176 * l6.abundance) / 100.0
    got = lu.neutron.scattering_by_wavelength(wl)[0]
    return bool(abs(got - want).max() <= 1e-12 * abs(want).max())


def init_failure(tname, e):
    return dict(signature="C07:init-raises:%s:%s" % (tname, type(e).__name__), table=tname, z=None, a=None, atom="H",
                what="loading the neutron data of the %s table raises %s: %s" % (tname, type(e).__name__, str(e)[:200]))


def main():
    out = dict(cases=[], meta=[], direct_fails=[], n_public=0, n_private=0, records=[], nodes=[],
               rows=[attempt(lambda: len(nsf.nsftable.split("\n"))), attempt(lambda: len(nsf.nsftableI.split("\n"))),
                     attempt(lambda: len(nsf_tables.ENERGY_DEPENDENT_TABLES))], lu_natural_ok=[])
    out["rows"] = [r if isinstance(r, int) else None for r in out["rows"]]
    tables = []
    try:
        periodictable.elements.H.neutron  # the public table loads its neutron data first
        tables.append(("public", periodictable.elements))
    except Exception as e:  # noqa
        out["direct_fails"].append(init_failure("public", e))
    try:
        priv = core.PeriodicTable("verif_c07")
        mass.init(priv)
        density.init(priv)
        nsf.init(priv)
        tables.append(("private", priv))
    except Exception as e:  # noqa
        out["direct_fails"].append(init_failure("private", e))
    for tname, table in tables:
        c, m, r, n = sweep(tname, table)
        out["cases"] += c
        out["meta"] += m
        out["records"].append(r)
        out["nodes"].append(n)
        out["n_" + tname] = len(c)
        try:
            out["direct_fails"] += direct(tname, table)
        except Exception as e:  # noqa  the third reader could not read the table text at all
            out["direct_fails"].append(dict(signature="C07:table-text-unreadable:%s" % type(e).__name__, table=tname,
                                            z=None, a=None, atom=None, found=False,
                                            what="the table text cannot be re-read row by row: %s: %s"
                                                 % (type(e).__name__, str(e)[:200])))
        out["lu_natural_ok"].append(attempt(lu_natural_note, table) is True)
    # history: nuclides registered AFTER the neutron data were loaded are "atoms not in the table" too
    # (run last: it adds isotopes to the tables of this harness process)
    for tname, table in tables:
        for sym in ("H", "Li", "O", "Gd", "Fe", "Po"):
            el = getattr(table, sym)
            A = (max(el.isotopes) if el.isotopes else 200) + 7
            iso = el.add_isotope(A)
            n = attempt(getattr, iso, "neutron")
            has = attempt(lambda: n.has_sld())
            bc = attempt(getattr, n, "b_c")
            res = attempt(lambda: nsf.neutron_scattering(((1, iso), (1, table.O)), density=1.0))
            ok = (not isinstance(n, Exception)) and has is False and bc is None and res == (None, None, None)
            if not ok:
                out["direct_fails"].append(dict(
                    signature="C07:isotope-added-after-load-has-data", table=tname, z=el.number, a=A, atom="%s[%d]" % (sym, A),
                    what="[%s table] %s.add_isotope(%d) after the neutron table was loaded: has_sld() is %r, b_c is %r, "
                         "neutron_scattering of its oxide is %r (an atom that is not in the table must report no SLD)"
                         % (tname, sym, A, has, bc, res)))
                break
    # first touch through an isotope: fresh interpreters whose very first neutron access is an isotope with a row of
    # its own; what it serves is its row, not its element's
    try:
        import subprocess, os
        rows, _, _ = third_reader()
        probes = [(1, 2), (26, 56), (28, 62), (5, 10), (64, 157)]
        code = ("import json, sys, periodictable as pt\n"
                "z, a = int(sys.argv[1]), int(sys.argv[2])\n"
                "n = pt.elements[z][a].neutron\n"
                "print(json.dumps([getattr(n, 'b_c', None), getattr(n, 'absorption', None)]))\n")
        for z, a in probes:
            if (z, a) not in rows:
                continue
            p = subprocess.run([sys.executable, "-c", code, str(z), str(a)], stdout=subprocess.PIPE, stderr=subprocess.PIPE, text=True,
                               timeout=300, cwd="/", env=dict(os.environ))
            got = json.loads(p.stdout.strip().split("\n")[-1]) if p.returncode == 0 and p.stdout.strip() else ["raises", p.stderr[-200:]]
            want = [rows[(z, a)]["b_c"], rows[(z, a)]["absorption"]]
            if got != want:
                sym = rows[(z, a)]["symbol"]
                out["direct_fails"].append(dict(
                    signature="C07:first-touch-through-isotope", table="public", z=z, a=a, atom="%s[%d]" % (sym, a),
                    what="in a fresh interpreter whose first neutron access is elements.%s[%d].neutron: b_c, absorption = %r, row %s of "
                         "the table says %r" % (sym, a, got, rows[(z, a)]["name"], want)))
                break
        # and the other order of tables: a private table is given its neutron data before the public table served any
        code2 = ("import json, periodictable as pt\n"
                 "from periodictable import core, mass, density, nsf\n"
                 "t = core.PeriodicTable('first'); mass.init(t); density.init(t); nsf.init(t)\n"
                 "print(json.dumps([[getattr(x.neutron, 'b_c', None), getattr(x.neutron, 'absorption', None)] for x in "
                 "(pt.elements.Fe, pt.elements.Fe[56], t.Fe, t.Fe[56], pt.elements.Co, t.Co)]))\n")
        p = subprocess.run([sys.executable, "-c", code2], stdout=subprocess.PIPE, stderr=subprocess.PIPE, text=True, timeout=300, cwd="/",
                           env=dict(os.environ))
        got = json.loads(p.stdout.strip().split("\n")[-1]) if p.returncode == 0 and p.stdout.strip() else ["raises", p.stderr[-200:]]
        want = [[rows[k]["b_c"], rows[k]["absorption"]] for k in ((26, 0), (26, 56), (26, 0), (26, 56), (27, 59), (27, 59))]
        if got != want:
            out["direct_fails"].append(dict(
                signature="C07:private-table-first", table="public", z=26, a=0, atom="Fe",
                what="in a fresh interpreter: T = PeriodicTable('first'); mass.init(T); density.init(T); nsf.init(T); then b_c, absorption of "
                     "elements.Fe, elements.Fe[56], T.Fe, T.Fe[56], elements.Co, T.Co are %r, the table says %r" % (got, want)))
    except Exception as e:  # noqa
        out["direct_fails"].append(dict(signature="C07:first-touch-through-isotope:raises", table="public", z=None, a=None, atom=None,
                                        what="the first-touch probes raised %s: %s" % (type(e).__name__, e)))
    json.dump(out, sys.stdout)


main()
