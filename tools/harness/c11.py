"""C11 harness: mixtures by weight / volume as calls and in every string form (wt%, vol%, mass and
volume units, layer thicknesses, nested and repeated groups)."""
import math, json, sys, random
from pyenc import enc, attempt, cstr, err_kind
from fcommon import *
import periodictable
from periodictable.formulas import formula, Formula, mix_by_weight, mix_by_volume

seed, ncase = int(sys.argv[1]), int(sys.argv[2])
rng = random.Random(seed)
PUB = periodictable.elements
ELEM = ["Fe", "Ni", "Si", "Au", "Cr", "Co", "Ti", "Al", "Cu", "Pb", "W", "Mg", "Zn", "2Fe", "(Ni)2", "Cu3"]
DENS = ["H2O@1", "D2O@1n", "NaCl@2.16", "SiO2@2.2", "C6H6@0.88", "CaCO3@2.71", "Fe2O3@5.24", "C2H6O@0.789", "H2O@1.0n",
        "Fe[56]2O3@5.1", "Na{+}Cl{-}@2.16", "(HO)2Ca@2.2"]
# the same compounds in another phase / at another density (polymorphs), and elements away from their tabulated density
DENS2 = ["SiO2@2.65", "CaCO3@2.93", "NaCl@1.9", "C@2.26", "C@3.51", "Fe@7.2", "Si@2.2", "H2O@0.917", "Fe2O3@4.9", "Ti@4.1"]
NODENS = ["NaCl", "C2H6O", "CaCO3", "H2SO4", "C3H8"]
MASS_U = ["ng", "ug", "mg", "g", "kg"]
VOL_U = ["nL", "uL", "mL", "L"]
LEN_U = ["nm", "um", "mm", "cm"]
cases, meta, fails = [], [], []
stats = dict(kind={}, units={}, nested=0, errors=0)


def qty(lo=-3, hi=4):
    return float("%.4g" % (10 ** rng.uniform(lo, hi)))


def num(x):
    if x == 0:
        return rng.choice(["0.0", "0.", "0.00"])     # the grammar has no integer zero: a zero quantity is written as a decimal
    s = repr(float(x))
    if "e" in s:
        s = "%.12f" % x
        s = s.rstrip("0")
    if s.endswith(".0"):
        s = s[:-2] if rng.random() < 0.5 else s
    return s


def component(allow_nodens=False, depth=1):
    r = rng.random()
    if depth > 0 and r < 0.15:
        a, b = component(False, depth - 1), component(False, depth - 1)
        stats["nested"] += 1
        p = round(rng.uniform(1, 90), rng.randint(0, 2))
        kind = rng.choice(["wt%", "vol%"])
        tag = ""
        if rng.random() < 0.3:
            tag = "@%s%s" % (num(round(rng.uniform(0.5, 9), 3)), rng.choice(["", "n", "i"]))     # the density of the bracketed mixture
        return "(%s %s %s // %s)%s" % (num(p), kind, a, b, tag)
    if allow_nodens and r < 0.3:
        return rng.choice(NODENS)
    if rng.random() < 0.15:
        return rng.choice(DENS2)
    return rng.choice(ELEM) if rng.random() < 0.5 else rng.choice(DENS)


def observe(fn):
    f = attempt(fn)
    if isinstance(f, Exception):
        stats["errors"] += 1
        return "(ObsErr %s)" % err_kind(f), f
    return "(ObsF %s %s %s %s %s)" % (struct_term(f.structure), enc(f.density), optstr_term(f.name),
                                      enc(getattr(f, "total_mass", None)), enc(getattr(f, "thickness", None))), f


def atom_mass(seq, out):
    for c, fr in seq:
        if core.isatom(fr):
            out[atom_key(fr)] = out.get(atom_key(fr), 0) + c
        else:
            sub = atom_mass(fr, {})
            for k, v in sub.items():
                out[k] = out.get(k, 0) + c * v
    return out


def dens_of(c):
    """the density a component brings: its own, or - for one kind of atom however it is written (2Fe, (Ni)2) - the element's"""
    f = attempt(formula, c)
    if isinstance(f, Exception):
        return None
    if f.density is not None:
        return f.density
    return list(f.atoms)[0].density if len(f.atoms) == 1 else None


def rel(a, b, tol=1e-9):
    return abs(a - b) <= tol * max(abs(a), abs(b))


def direct_ratio(kind, comps, qs, f, text, check_density=True):
    """component masses (volumes) in the ratio of the quantities; density = mass / volume"""
    parts = [formula(c) for c in comps]
    keysets = [set(atom_key(a) for a in p.atoms) for p in parts]
    live = [p for q, p in zip(qs, parts) if q > 0]
    if check_density and len(live) >= 2 and any(p.density is None for p in live) and f.density is not None:
        # total mass / total volume is not known when the volume of a part is not
        fails.append(dict(signature="C11:density-although-a-part-has-none", what="%s: density %r although %s has no density"
                          % (text, f.density, next(str(p) for p in live if p.density is None)), input=text))
    shared = any(keysets[i] & keysets[j] for i in range(len(parts)) for j in range(i + 1, len(parts)))
    if shared:
        # components with atoms in common (the same compound at two densities, ...): the stated quantities still fix the
        # whole composition, sum_i n_i x atoms_i with n_i = q_i / M_i (by weight) or q_i rho_i / M_i (by volume), and
        # the density, sum q / sum (q_i / rho_i) or sum q_i rho_i / sum q_i
        pos = [(q, p) for q, p in zip(qs, parts) if q > 0]
        if not pos or (kind != "weight" and not all(p.density for _, p in pos)):
            return
        expect = {}
        for q, p in pos:
            n_i = q / p.mass if kind == "weight" else q * p.density / p.mass
            for a, c in p.atoms.items():
                expect[atom_key(a)] = expect.get(atom_key(a), 0.0) + n_i * c
        got = atom_mass(f.structure, {})
        k0 = max(expect, key=lambda k: expect[k])
        if set(k for k, v in got.items() if v) != set(k for k, v in expect.items() if v) or \
                any(not rel(got.get(k, 0) * expect[k0], expect[k] * got.get(k0, 0), 1e-9) for k in expect):
            fails.append(dict(signature="C11:%s-ratio" % kind, what="%s: the atoms are not those of the components in the requested %s ratio "
                              "(components share atoms; composition %r, expected proportional to %r)" % (text, kind, got, expect), input=text))
            return
        if check_density and all(p.density for _, p in pos):
            rho = (sum(q for q, _ in pos) / sum(q / p.density for q, p in pos)) if kind == "weight" else \
                (sum(q * p.density for q, p in pos) / sum(q for q, _ in pos))
            if f.density is None or not rel(f.density, rho, 1e-9):
                fails.append(dict(signature="C11:density-not-mass-over-volume", what="%s: density %r, total mass / total volume of the stated parts %r"
                                  % (text, f.density, rho), input=text))
        return
    total = atom_mass(f.structure, {})
    masses = []
    for p, ks in zip(parts, keysets):
        masses.append(sum(total.get(k, 0) * get_atom(PUB, k).mass for k in ks))
    pos = [(m, q, p) for m, q, p in zip(masses, qs, parts) if q > 0]
    for (m, q, p) in [x for x in zip(masses, qs, parts) if x[1] <= 0]:
        if m != 0:
            fails.append(dict(signature="C11:zero-quantity-present", what="%s: a component with quantity 0 is present" % text, input=text))
    if not pos:
        return
    m0, q0, p0 = pos[0]
    for m, q, p in pos[1:]:
        if kind == "weight":
            ok = rel(m * q0, m0 * q)
        else:
            ok = rel(m / p.density * q0, m0 / p0.density * q)
        if not ok:
            fails.append(dict(signature="C11:%s-ratio" % kind, what="%s: components are not in the requested %s ratio" % (text, kind), input=text))
            return
    if check_density and all(p.density for _, _, p in pos):
        vol = sum(m / p.density for m, _, p in pos)
        if f.density is None or not rel(f.density, sum(m for m, _, _ in pos) / vol):
            fails.append(dict(signature="C11:density-not-mass-over-volume", what="%s: density %r, mass/volume %r" % (text, f.density, sum(m for m, _, _ in pos) / vol), input=text))
    # the smallest component has multiplier one: its atoms appear with the counts of its own formula
    # (checked through the model correspondence)


def add(kind, inp_term, fn, text):
    obs, f = observe(fn)
    cases.append("(%s, %s)" % (inp_term, obs))
    meta.append(dict(kind=kind, text=text))
    stats["kind"][kind] = stats["kind"].get(kind, 0) + 1
    return f


while len(cases) < ncase:
    k = len(cases) % 8
    n = rng.randint(1, 5) if k < 2 else rng.randint(2, 4)
    if k == 0 or k == 1:
        vol = (k == 1)
        comps = [component(allow_nodens=not vol or rng.random() < 0.1) for _ in range(n)]
        qs = [0.0 if rng.random() < 0.08 else qty(-4, 6) for _ in range(n)]
        dens = rng.choice([None, None, None, round(rng.uniform(0.5, 9), 2)])
        name = rng.choice([None, None, "mix"])
        args = []
        for c, q in zip(comps, qs):
            args += [c, q]
        fn = (mix_by_volume if vol else mix_by_weight)
        kw = dict(density=dens, name=name)
        text = "%s(%s, density=%r, name=%r)" % (fn.__name__, ", ".join(repr(a) for a in args), dens, name)
        term = "(InCall %s [%s] %s None %s)" % ("true" if vol else "false",
                                                "; ".join("(%s, %s)" % (cstr(c), qterm(q)) for c, q in zip(comps, qs)),
                                                optq_term(dens), optstr_term(name))
        f = add("call-volume" if vol else "call-weight", term, lambda: fn(*args, **kw), text)
        if isinstance(f, Formula):
            direct_ratio("volume" if vol else "weight", comps, qs, f, text, check_density=(dens is None))
            # independent of how each component's formula unit is scaled
            kscale = rng.choice([2, 3, 0.5, 10])
            args2 = []
            for c, q in zip(comps, qs):
                g = formula(c)
                h = kscale * g
                h.density = g.density
                args2 += [h, q]
            f2 = attempt(lambda: fn(*args2))
            if isinstance(f2, Formula) and dens is None:
                a1, a2 = atom_mass(f.structure, {}), atom_mass(f2.structure, {})
                if a1 and a2:
                    k0 = next(iter(a1))
                    if set(a1) != set(a2) or any(not rel(a1[x] * a2[k0], a2[x] * a1[k0], 1e-9) for x in a1) or \
                            (f.density is not None and not rel(f.density, f2.density)):
                        fails.append(dict(signature="C11:depends-on-formula-unit", what="%s changes when components are scaled by %r" % (text, kscale), input=text))
    elif k in (2, 3):
        vol = (k == 3)
        comps = [component(allow_nodens=not vol) for _ in range(n)]
        ps = sorted(round(rng.uniform(0.5, 90.0 / n), rng.randint(0, 3)) for _ in range(n - 1))
        if rng.random() < 0.12:
            # very unequal parts: the last component gets a remainder of 1e-3 .. 1e-9 percent
            e = rng.randint(3, 9)
            if n == 2:
                ps = [float("%.*f" % (e, 100 - 10.0 ** -e))]
            else:
                ps = sorted(ps[:-1] + [float("%.*f" % (e, 100 - sum(ps[:-1]) - 10.0 ** -e))])
            # 100 - sum(fract) is taken in doubles; Python >= 3.12 sums with compensation, older versions naively.
            # For a remainder this small one ulp of the sum is visible, so keep to inputs where both agree (the model
            # sums naively, rounding every partial sum)
            naive = 0.0
            for x in ps:
                naive += x
            if naive != sum(ps) or naive != math.fsum(ps):
                ps = ps[-1:] if n == 2 else sorted(round(rng.uniform(0.5, 90.0 / n), rng.randint(0, 3)) for _ in range(n - 1))
                stats["tiny_remainder_skipped"] = stats.get("tiny_remainder_skipped", 0) + 1
            else:
                stats["tiny_remainder"] = stats.get("tiny_remainder", 0) + 1
        if rng.random() < 0.1:
            ps[rng.randrange(len(ps))] = 0.0       # a part with quantity zero written in the string: it vanishes
            stats["zero_in_string"] = stats.get("zero_in_string", 0) + 1
        word = rng.choice(["vol%", "%vol", "volume%", "v%", "%v", "vol% "] if vol else ["wt%", "%wt", "weight%", "mass%", "w%", "m%", "%mass", "%w"])
        sp = rng.choice([" ", " ", ""])
        s = "%s%s%s %s" % (num(ps[0]), sp, word, comps[0])
        for p, c in zip(ps[1:], comps[1:-1]):
            s += " // %s%s %s" % (num(p), rng.choice(["%", "%", word]), c)
        s += rng.choice([" // ", "//", " //", "// "]) + comps[-1]
        f = add("string-volume%" if vol else "string-weight%", "(InString %s)" % cstr(s), lambda: formula(s), s)
        if isinstance(f, Exception) and all(not isinstance(attempt(formula, c), Exception) for c in comps) and \
                (not vol or all(dens_of(c) for c in comps)):
            fails.append(dict(signature="C11:valid-percent-string-rejected", what="formula(%r) raises %s: %s although every component parses and the "
                              "spelling is documented" % (s, type(f).__name__, f), input=s))
        if isinstance(f, Formula):
            qs = ps + [100 - sum(ps)]
            direct_ratio("volume" if vol else "weight", comps, qs, f, s)
            args = []
            for c, q in zip(comps, qs):
                args += [c, q]
            g = attempt(lambda: (mix_by_volume if vol else mix_by_weight)(*args))
            if not isinstance(g, Formula) or g.structure != f.structure or (g.density != f.density and not rel(g.density, f.density, 1e-13)):
                fails.append(dict(signature="C11:string-differs-from-call", what="formula(%r) differs from the corresponding call" % s, input=s))
    elif k == 4:
        comps = [component(allow_nodens=True) for _ in range(n)]
        units, qs = [], []
        s = ""
        for i, c in enumerate(comps):
            nod = c in NODENS
            u = rng.choice(MASS_U) if (nod or rng.random() < 0.5) else rng.choice(VOL_U)
            q = qty(-2, 3)
            if n >= 2 and rng.random() < 0.06:
                q = 0.0
                stats["zero_in_string"] = stats.get("zero_in_string", 0) + 1
            stats["units"][u] = stats["units"].get(u, 0) + 1
            s += (" // " if i else "") + "%s%s%s %s" % (num(q), rng.choice(["", " "]), u, c)
            units.append(u); qs.append(q)
        f = add("string-mass/volume", "(InString %s)" % cstr(s), lambda: formula(s), s)
        if isinstance(f, Exception) and any(u == "L" for u in units) and isinstance(f, ValueError) and "unknown element L" in str(f):
            fails.append(dict(signature="C11:unit-L-rejected", what="formula(%r) raises %s" % (s, f), input=s))
        elif isinstance(f, Exception) and all(not isinstance(attempt(formula, c), Exception) for c in comps) and \
                all(dens_of(c) for c, u in zip(comps, units) if u in VOL_U) and sum(qs) > 0:
            fails.append(dict(signature="C11:valid-quantity-string-rejected", what="formula(%r) raises %s: %s although every part parses, every "
                              "unit is documented (%s) and every part given by volume has a density" % (s, type(f).__name__, f, ", ".join(sorted(set(units)))),
                              input=s))
        if isinstance(f, Formula):
            M = dict(ng=1e-9, ug=1e-6, mg=1e-3, g=1.0, kg=1e3); V = dict(nL=1e-9, uL=1e-6, mL=1e-3, L=1.0)
            masses = [q * M[u] if u in M else q * V[u] * 1000 * formula(c).density for q, u, c in zip(qs, units, comps)]
            if not rel(getattr(f, "total_mass", 0) or 0, sum(masses), 1e-12):
                fails.append(dict(signature="C11:total_mass", what="formula(%r).total_mass = %r, stated %r" % (s, getattr(f, "total_mass", None), sum(masses)), input=s))
            direct_ratio("weight", comps, masses, f, s)
    elif k == 5:
        comps = [component(False, 0) for _ in range(n)]
        s, thick = "", []
        for i, c in enumerate(comps):
            u = rng.choice(LEN_U); q = qty(-1, 3)
            stats["units"][u] = stats["units"].get(u, 0) + 1
            s += (" // " if i else "") + "%s %s %s" % (num(q), u, c)
            thick.append(q * dict(nm=1e-9, um=1e-6, mm=1e-3, cm=1e-2)[u])
        f = add("string-layers", "(InString %s)" % cstr(s), lambda: formula(s), s)
        if isinstance(f, Formula):
            if not rel(getattr(f, "thickness", 0) or 0, sum(thick), 1e-12):
                fails.append(dict(signature="C11:thickness", what="formula(%r).thickness = %r, stated %r" % (s, getattr(f, "thickness", None), sum(thick)), input=s))
            direct_ratio("volume", comps, thick, f, s)
    elif k == 6:
        # repeated / nested groups
        a, b, c = (component(False, 0) for _ in range(3))
        rep = rng.choice([2, 3, 10, 1.5])
        form = rng.randint(0, 2)
        expect = None
        if form == 0:
            qa, qb, qc = qty(0, 2), qty(0, 2), qty(0, 2)
            s = "(%s nm %s // %s nm %s)%s // %s nm %s" % (num(qa), a, num(qb), b, num(rep), num(qc), c)
            sig = "C11:repeated-layer-group"
            expect = ("thickness", ((qa + qb) * rep + qc) * 1e-9,
                      lambda: mix_by_volume(mix_by_volume(a, qa, b, qb), (qa + qb) * rep, c, qc))
        elif form == 1:
            qa, qb, qc = qty(0, 2), qty(0, 2), qty(0, 2)
            s = "(%s g %s // %s mL %s)%s // %s mg %s" % (num(qa), a, num(qb), b, num(rep), num(qc), c)
            sig = "C11:repeated-mass-group"
            mb = qb * 1e-3 * 1000 * formula(b).density
            expect = ("total_mass", (qa + mb) * rep + qc * 1e-3,
                      lambda: mix_by_weight(mix_by_weight(a, qa, b, mb), (qa + mb) * rep, c, qc * 1e-3))
        else:
            s = "%s wt%% (%s vol%% %s // %s)@%s // %s" % (num(round(rng.uniform(1, 90), 1)), num(round(rng.uniform(1, 90), 1)), a, b, num(round(rng.uniform(0.5, 9), 2)), c)
            sig = "C11:grouped-density"
        f = add("string-groups", "(InString %s)" % cstr(s), lambda: formula(s), s)
        if isinstance(f, Exception) and not isinstance(f, ValueError):
            fails.append(dict(signature=sig + ":" + type(f).__name__, what="formula(%r) raises %s: %s" % (s, type(f).__name__, f), input=s))
        if isinstance(f, Formula) and expect is not None:
            attr, amount, call = expect
            got = getattr(f, attr, None)
            if got is None or not rel(got, amount, 1e-12):
                fails.append(dict(signature=sig + ":" + attr, what="formula(%r).%s = %r, the stated amount is %r" % (s, attr, got, amount), input=s))
            g = attempt(call)
            if isinstance(g, Formula):
                a1, a2 = atom_mass(f.structure, {}), atom_mass(g.structure, {})
                k0 = next(iter(a1)) if a1 else None
                if set(a1) != set(a2) or any(not rel(a1[x] * a2[k0], a2[x] * a1[k0], 1e-9) for x in a1) or \
                        (g.density is not None and (f.density is None or not rel(f.density, g.density, 1e-9))):
                    fails.append(dict(signature=sig + ":differs-from-call", what="formula(%r) is %s @ %r, the corresponding nested call gives %s @ %r"
                                      % (s, f, f.density, g, g.density), input=s))
    else:
        # malformed / error paths: missing base component, percentages over 100, volume without density
        form = rng.randint(0, 3)
        if form == 0:
            s = "%s wt%% %s" % (num(round(rng.uniform(1, 90), 1)), component(True, 0))
        elif form == 1:
            s = "70 wt%% %s // 40%% %s // %s" % (component(True, 0), component(True, 0), component(True, 0))
        elif form == 2:
            s = "10 vol%% %s // %s" % (rng.choice(NODENS), component(False, 0))
        else:
            s = "5 mL %s // 2 g %s" % (rng.choice(NODENS), component(False, 0))
        f = add("string-errors", "(InString %s)" % cstr(s), lambda: formula(s), s)
        if isinstance(f, Formula):
            fails.append(dict(signature="C11:invalid-mixture-accepted", what="formula(%r) yields %s" % (s, f), input=s))
# keywords applied to an absolute-amount string keep what the string states
for text_, attr_, want_ in (("5g NaCl // 50mL H2O@1", "total_mass", 55.0), ("1 um Si // 5 nm Cr // 10 nm Au", "thickness", 1.015e-6)):
    for kw_ in (dict(name="sample"), dict(density=2.0), dict(natural_density=2.0)):
        f_ = attempt(lambda: formula(text_, **kw_))
        if isinstance(f_, Exception) or not rel(getattr(f_, attr_, 0) or 0, want_, 1e-12):
            fails.append(dict(signature="C11:%s" % attr_, what="formula(%r, %s).%s is %r, the string states %r"
                              % (text_, ", ".join("%s=%r" % kv for kv in kw_.items()), attr_, f_ if isinstance(f_, Exception) else getattr(f_, attr_, None), want_),
                              input=text_))
# a bracketed mixture takes a density tag like a compound: '@d' / '@di' is its density, '@dn' its natural density
stats["tagged_brackets"] = 0
for inner in ("50 wt% H2O@1 // D2O@1n", "30 vol% D2O@1n // H2O@1", "10 wt% Fe[56] // Ni", "25 wt% Li[6]F@2.6 // LiF@2.64", "40 wt% NaCl@2.16 // H2O@1"):
    for sfx, attr in (("", "density"), ("i", "density"), ("n", "natural_density")):
        d_ = round(rng.uniform(0.8, 8), 3)
        text_ = "(%s)@%s%s" % (inner, num(d_), sfx)
        f_ = attempt(formula, text_)
        stats["tagged_brackets"] += 1
        if isinstance(f_, Exception) or not rel(getattr(f_, attr), d_, 1e-12):
            fails.append(dict(signature="C11:bracket-density-tag", what="formula(%r).%s is %r, the tag says %r"
                              % (text_, attr, f_ if isinstance(f_, Exception) else getattr(f_, attr), d_), input=text_))
json.dump(dict(cases=cases, meta=meta, direct_fails=fails, stats=stats), sys.stdout)
