"""Shared helpers for the formula harnesses: atom pool, encoding of structures as Coq terms."""
import math, random
from pyenc import enc, enc_float, zlit, cstr
import periodictable
from periodictable import core, formulas


def qterm(x):
    """exact rational of a Python int/float as a Coq term of type Q"""
    if isinstance(x, bool):
        raise TypeError
    if isinstance(x, int):
        return "(inject_Z %s)" % zlit(x)
    n, d = float(x).as_integer_ratio()
    e = -(d.bit_length() - 1)
    return "(D2Q %s %s)" % (zlit(n), zlit(e))


def atom_key(a):
    """(Z, A, charge) of a table atom"""
    q = getattr(a, "charge", 0)
    base = a.element if core.ision(a) else a
    A = base.isotope if core.isisotope(base) else 0
    return (a.number, A, q)


def atom_term(a):
    z, A, q = atom_key(a)
    return "(mkAtom %s %s %s)" % (zlit(z), zlit(A), zlit(q))


def get_atom(table, key):
    z, A, q = key
    x = table[z]
    if A:
        x = x[A]
    if q:
        x = x.ion[q]
    return x


def struct_term(seq):
    items = []
    for count, frag in seq:
        if core.isatom(frag):
            items.append("(%s, FAtom %s)" % (qterm(count), atom_term(frag)))
        else:
            items.append("(%s, FGroup %s)" % (qterm(count), struct_term(frag)))
    return "[" + "; ".join(items) + "]"


def optq_term(x):
    return "None" if x is None else "(Some %s)" % qterm(x)


def optstr_term(s):
    return "None" if s is None else "(Some %s)" % cstr(s)


class Pool:
    """atoms drawn from the whole table: elements, isotopes, ions, isotope ions"""

    def __init__(self, table, rng):
        self.table, self.rng = table, rng
        self.elements = [el for el in table if el.number >= 1]

    def atom(self, kinds=("el", "iso", "ion", "isoion"), zmax=118):
        rng = self.rng
        for _ in range(100):
            el = rng.choice([e for e in self.elements if e.number <= zmax]) if rng.random() < 0.6 else \
                self.table[rng.choice([1, 1, 6, 7, 8, 11, 17, 26, 14, 92, 3, 5])]
            kind = rng.choice(kinds)
            a = el
            if kind in ("iso", "isoion"):
                isos = el.isotopes
                if not isos:
                    continue
                a = el[rng.choice(isos)]
            if kind in ("ion", "isoion"):
                if not el.ions:
                    continue
                a = a.ion[rng.choice(el.ions)]
            return a
        return self.table[1]

    def count(self, exact):
        rng = self.rng
        r = rng.random()
        if exact:
            if r < 0.5:
                return rng.randint(1, 12)
            if r < 0.8:
                return rng.randint(1, 40) / 4.0
            return rng.randint(1, 64) / 8.0
        if r < 0.3:
            return rng.randint(1, 20)
        if r < 0.8:
            return round(rng.uniform(0.01, 30), rng.randint(1, 4))
        return float("%.3g" % (10 ** rng.uniform(-3, 4)))

    def nested(self, depth, exact, width=3):
        """a nested (count, fragment) sequence as Python lists/tuples"""
        rng = self.rng
        seq = []
        for _ in range(rng.randint(1, width)):
            if depth > 0 and rng.random() < 0.4:
                seq.append((self.count(exact), self.nested(depth - 1, exact, width)))
            else:
                seq.append((self.count(exact), self.atom()))
        return seq if rng.random() < 0.5 else tuple(seq)
