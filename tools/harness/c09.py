"""C09 harness: histories of first-touch events, ONE fresh interpreter each.

argv: seed tier [n_random]
Prints one JSON document: cases (Coq terms `(list event * list outcome)`), meta (the history as Python
statements), direct_fails (histories on which a value served by the public table differs from what the
canonical order serves - the property's own statement, independent of the model), stats."""
import json, sys, random, itertools, time
from c09lib import *

seed = int(sys.argv[1])
tier = sys.argv[2]
quick = tier == "quick"
rng = random.Random(seed * 7919 + 9)
t0 = time.time()

# per group: the ways of touching it first (public reads through element / isotope / ion, hasattr, calculator,
# import, explicit init of the public table, init of a private table)
POOL = {
    "neutron": [["read", "pub", "E1", "neutron"], ["read", "pub", "I11", "neutron"], ["read", "pub", "XI11", "neutron"],
                ["has", "pub", "E0", "neutron"], ["calc", "neutron_sld", "pub"], ["import", "fasta"],
                ["init", "nsf.init", "pub"], ["init", "nsf.init", "p1"]],
    "xray": [["read", "pub", "E1", "xray"], ["read", "pub", "XE1", "xray"], ["read", "pub", "I11", "xray"],
             ["has", "pub", "XI01", "xray"], ["calc", "xray_sld", "pub"], ["calc", "xray_sld_ion", "pub"],
             ["init", "xsf.init", "pub"], ["init", "xsf.init", "p1"]],
    "emission": [["read", "pub", "E1", "K_alpha"], ["read", "pub", "E1", "K_alpha_units"], ["read", "pub", "E0", "K_beta1"],
                 ["has", "pub", "I11", "K_beta1_units"], ["read", "pub", "XE1", "K_beta1"],
                 ["init", "xsf.init_spectral_lines", "pub"], ["init", "xsf.init_spectral_lines", "p1"]],
    "covalent_radius": [["read", "pub", "E1", "covalent_radius"], ["read", "pub", "E1", "covalent_radius_units"],
                        ["read", "pub", "E0", "covalent_radius_uncertainty"], ["read", "pub", "En", "covalent_radius"],
                        ["has", "pub", "XE1", "covalent_radius_uncertainty"], ["read", "pub", "I01", "covalent_radius"],
                        ["init", "covalent_radius.init", "pub"], ["init", "covalent_radius.init", "p1"]],
    "crystal_structure": [["read", "pub", "E1", "crystal_structure"], ["read", "pub", "E0", "crystal_structure"],
                          ["has", "pub", "I11", "crystal_structure"], ["read", "pub", "XE1", "crystal_structure"],
                          ["init", "crystal_structure.init", "pub"], ["init", "crystal_structure.init", "p1"]],
    "magnetic_ff": [["read", "pub", "E1", "magnetic_ff"], ["has", "pub", "E0", "magnetic_ff"],
                    ["read", "pub", "XI11", "magnetic_ff"], ["calc", "magnetic_j0", "pub"],
                    ["init", "magnetic_ff.init", "pub"], ["init", "magnetic_ff.init", "p1"]],
    "neutron_activation": [["read", "pub", "I11", "neutron_activation"], ["read", "pub", "E1", "neutron_activation"],
                           ["has", "pub", "I01", "neutron_activation"], ["read", "pub", "XI11", "neutron_activation"],
                           ["calc", "activation", "pub"], ["init", "activation.init", "pub"],
                           ["init", "activation.init", "p1"]],
}
LAZY_GROUPS = list(POOL)


def all_events(private=True):
    """the whole C09 alphabet"""
    ev = []
    for n in LAZY_NAMES:
        for a in ATOMS:
            if a == "En" and GROUP_OF[n] != "covalent_radius":
                continue
            ev.append(["read", "pub", a, n])
            ev.append(["has", "pub", a, n])
    ev += [["import", m] for m in MODULES]
    ev += [["calc", c, "pub"] for c in CALCS]
    ev += [["init", k, "pub"] for k in KEYS]
    if private:
        ev += [["init", k, "p1"] for k in KEYS if KEYS[k] != "base"]
        ev += [["read", "p1", a, n] for n in LAZY_NAMES for a in ("E1", "I11")]
    return ev


def with_prefix(events):
    """insert the creation of p1 (with mass and density) before its first use"""
    out, made = [], False
    for e in events:
        if e[0] == "new" and e[1] == "p1":
            made = True
        uses = (e[0] in ("read", "has") and e[1] == "p1") or (e[0] in ("init", "calc") and e[2] == "p1")
        if uses and not made:
            out += PRIV_PREFIX("p1")
            made = True
        out.append(e)
    return out


def pack(seqs):
    """interleave one sequence per group, keeping each sequence's order"""
    seqs = [list(s) for s in seqs if s]
    out = []
    while seqs:
        s = rng.choice(seqs)
        out.append(s.pop(0))
        if not s:
            seqs.remove(s)
    return out


histories, kinds = [], []


def add(events, kind):
    histories.append(with_prefix(events) + closing_reads())
    kinds.append(kind)


# (1) every sequence of length <= 2 (quick) / <= 3 (thorough) over each group's pool, one group per slot
maxlen = 2 if quick else 3
per_group = {g: [list(s) for L in range(1, maxlen + 1) for s in itertools.product(POOL[g], repeat=L)] for g in LAZY_GROUPS}
for g in per_group:
    rng.shuffle(per_group[g])
rounds = max(len(v) for v in per_group.values())
for i in range(rounds):
    add(pack([per_group[g][i] for g in LAZY_GROUPS if i < len(per_group[g])]), "exhaustive<=%d" % maxlen)
# (2) quick: a sample of length-3 sequences
if quick:
    for _ in range(70):
        add(pack([[rng.choice(POOL[g]) for _ in range(3)] for g in LAZY_GROUPS]), "sample3")
# (3) each single first touch alone (the unpacked baseline), and every import alone
for g in LAZY_GROUPS:
    for e in POOL[g]:
        add([e], "single")
for m in MODULES:
    add([["import", m]], "import")
# (4) random histories over the whole alphabet
ALPHA = all_events()
nrand, rlen = (60, 12) if quick else (1500, 40)
if len(sys.argv) > 3:
    nrand = int(sys.argv[3])
for _ in range(nrand):
    L = rng.randint(3, rlen)
    add([rng.choice(ALPHA) for _ in range(L)], "random")
# (5) transition coverage of the model (thorough): witness histories handed in by the driver
extra = []
if len(sys.argv) > 4:
    extra = json.load(open(sys.argv[4]))
    for h in extra:
        add(h, "transition")

can = canonical()
results = run_children(histories)

cases, meta, fails = [], [], []


def modname(key):
    return key[:-5] if key.endswith(".init") else key.split(".", 1)[1]


pub_observation_ok = lambda ev, oc: c09_ok(ev, oc, can)


_observe = observe
observe = lambda h: _observe(h, can)


buckets = {}
for h, res, kind in zip(histories, results, kinds):
    oc = [classify(e, o, can) for e, o in zip(h, res["out"])]
    cases.append(coq_case(h, oc))
    meta.append([text_event(e) for e in h])
    for i, (e, o) in enumerate(zip(h, oc)):
        if not pub_observation_ok(e, o):
            g = event_groups(e)
            culprits = tuple(sorted(set((x[1], x[2]) for x in h[:i] if x[0] == "init" and set(event_groups(x)) & set(g))))
            key = (tuple(g), culprits)
            if key not in buckets or len(buckets[key][0]) > i + 1:
                buckets[key] = (h[:i + 1], o)

seen_sig = set()
for key, (prefix, oc) in sorted(buckets.items(), key=lambda kv: len(kv[1][0])):
    last = prefix[-1]

    def still_fails(cands, oc=oc):
        out = []
        for cand, res in zip(cands, run_children(cands)):
            o = [classify(e, r, can) for e, r in zip(cand, res["out"])]
            out.append(not pub_observation_ok(cand[-1], o[-1]) and o[-1] == oc)
        return out
    m = minimise(prefix, still_fails)

    def viol_last(cands):
        out = []
        for cand, res in zip(cands, run_children(cands)):
            oo = [classify(e, r, can) for e, r in zip(cand, res["out"])]
            out.append(not pub_observation_ok(cand[-1], oo[-1]))
        return out
    m = prefer_read(m, "pub", viol_last)
    o = observe(m)
    before = m[:-1]
    grp = set(event_groups(m[-1]))
    priv = [x for x in before if x[0] == "init" and x[2] != "pub" and set(event_groups(x)) & grp]
    direct = [x for x in before if x[0] == "init" and x[2] == "pub" and set(event_groups(x)) & grp]
    if priv:
        sig = "C09:private-init-before-public-touch:%s" % modname(priv[0][1])
    elif direct and direct[0][1] == "xsf.init_spectral_lines":
        sig = "C09:direct-init_spectral_lines-first"
    elif direct:
        sig = "C09:direct-init-first:%s" % direct[0][1]
    else:
        sig = "C09:order-dependent:%s:%s" % ("+".join(sorted(grp)), "-".join(x[0] for x in before) or "first")
    if sig in seen_sig:
        continue
    seen_sig.add(sig)
    what = ("after [%s], `%s` %s; in the canonical order (plain reads in a fresh interpreter) it gives %s"
            % ("; ".join(text_event(e) for e in m[:-1]), text_event(m[-1]), words(o[-1]),
               "the loaded data" if m[-1][0] in ("read", "calc") else "the opposite / no exception"))
    fails.append(dict(signature=sig, what=what, history=m, history_text=[text_event(e) for e in m],
                      outcomes=o, expected="every public observation is what the canonical order serves"))

nev = sum(len(h) for h in histories)
print(json.dumps(dict(
    cases=cases, meta=meta, direct_fails=fails,
    stats=dict(histories=len(histories), events=nev, kinds={k: kinds.count(k) for k in sorted(set(kinds))},
               distinct=len(set(cases)), alphabet=len(ALPHA), harness_s=round(time.time() - t0, 1),
               canonical_reads=len(can["read"]), groups=LAZY_GROUPS, cover_mismatch=can["cover_mismatch"]))))
