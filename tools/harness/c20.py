"""C20 harness: the five ancillary tables, enumerated exhaustively on the real library.

Cases (for the Coq model): every element of the public table and of a freshly initialised private
table x (covalent_radius, covalent_radius_uncertainty, crystal_structure, K_alpha, K_beta1,
magnetic_ff with every charge state and every coefficient set, and the form factors at Q=0);
every Cromer-Mann symbol through getCMformula (listed and unlisted); xray.f0(0) of every element and
ion of both tables; fxrayatq on the bare-sign spellings ("Na+").

direct_fails: the property's own statement evaluated on the implementation against a third reading
of the table text (split/regex only, nothing shared with the Coq model), including the form
factors on a Q grid in [0, 30] computed with math.exp from the re-read coefficients."""
import ast, json, math, os, re, sys
from pyenc import enc, attempt
import periodictable
from periodictable import core, covalent_radius, crystal_structure, xsf, magnetic_ff, cromermann

TIER = sys.argv[1] if len(sys.argv) > 1 else "quick"
QGRID = [float(q) for q in range(31)] if TIER == "quick" else [q / 8.0 for q in range(0, 241)]
SETS = ["j0", "j2", "j4", "j6", "J"]
# Q points at which the Coq interval model of the form factors is run (numerator, denominator)
COQ_QGRID = [(1, 1), (7, 1), (30, 1)] if TIER == "quick" else [(q, 1) for q in range(31)] + [(1, 8), (239, 8)]
PKGDIR = os.path.dirname(os.path.abspath(periodictable.__file__))


# ------------------------------------------------------------------ observables for the model
def enc_struct(s):
    if s is None or isinstance(s, BaseException):
        return enc(s)
    if not isinstance(s, dict):
        return enc("not a dict: %r" % (s,))
    return "(PL [%s])" % "; ".join("(PL [%s; %s])" % (enc(k), enc(v)) for k, v in s.items())


def enc_mff(m):
    if isinstance(m, BaseException):
        return enc(m)
    items = []
    for charge, ff in m.items():
        obs = [charge]
        obs += [attempt(getattr, ff, k) for k in SETS + ["M"]]
        obs += [attempt(lambda k=k: getattr(ff, k + "_Q")(0.0)) for k in SETS + ["M"]]
        items.append(enc(obs))
    return "(PL [%s])" % "; ".join(items)


def el_case(el):
    o = [enc(attempt(getattr, el, "covalent_radius")),
         enc(attempt(getattr, el, "covalent_radius_uncertainty")),
         enc_struct(attempt(getattr, el, "crystal_structure")),
         enc(attempt(getattr, el, "K_alpha")),
         enc(attempt(getattr, el, "K_beta1")),
         enc_mff(attempt(getattr, el, "magnetic_ff"))]
    return '("el", [%d], [%s])' % (el.number, "; ".join(o))


def f0_of(table, z, charge, q):
    el = table[z]
    if charge == 0:
        return attempt(lambda: el.xray.f0(q))
    return attempt(lambda: el.ion[charge].xray.f0(q))


def sweep(tname, table):
    cases, meta = [], []
    for el in table:
        cases.append(el_case(el))
        meta.append([tname, "el", el.number, el.symbol])
    for el in table:
        for charge in (0,) + tuple(el.ions):
            v = f0_of(table, el.number, charge, 0.0)
            cases.append('("f0", [%d; %s], [%s])' % (el.number, "(%d)" % charge if charge < 0 else charge, enc(v)))
            meta.append([tname, "f0", el.number, el.symbol, charge])
    return cases, meta


def cm_cases(table, listed_symbols):
    syms = list(listed_symbols)
    for el in table:
        for s in [el.symbol] + ["%s%d%s" % (el.symbol, abs(c), "+" if c > 0 else "-") for c in el.ions]:
            if s not in syms:
                syms.append(s)
    syms += ["", "D", "Fe2", "Fe+2", "fe", "H1+"]
    cases, meta = [], []
    for s in syms:
        f = attempt(cromermann.getCMformula, s)
        if isinstance(f, BaseException):
            r = enc(f)
        else:
            r = "(PL [%s; %s; %s; %s])" % (enc(f.symbol), enc(f.a), enc(f.b), enc(f.c))
        cases.append('("cm", [], [%s; %s])' % (enc(s), r))
        meta.append(["module", "cm", s])
    # the charge=None path of fxrayatstol: "Na+" -> "Na1+", plus every listed spelling
    spell = list(listed_symbols) + [s[:-2] + s[-1] for s in listed_symbols if re.search(r"1[+-]$", s)] + ["Fe+", "Xx-", "+"]
    for s in spell:
        v = attempt(cromermann.fxrayatq, s, 0.0)
        cases.append('("fx", [], [%s; %s])' % (enc(s), enc(v)))
        meta.append(["module", "fx", s])
    return cases, meta


def zl(z):
    return "(%d)" % z if z < 0 else "%d" % z


def ff_cases(tname, table):
    """Form factors on the Coq Q grid: every charge state x every set name (absent ones raise),
    and f0 of every element and ion."""
    cases, meta = [], []
    for el in table:
        m = attempt(getattr, el, "magnetic_ff")
        if not isinstance(m, BaseException):
            for charge, ff in m.items():
                if not isinstance(charge, int) or isinstance(charge, bool):
                    continue        # a key that is not a charge: reported by direct(), nothing to run the model on
                for k, jn in enumerate(SETS):
                    for qn, qd in COQ_QGRID:
                        v = attempt(lambda: getattr(ff, jn + "_Q")(qn / qd))
                        cases.append('("ffq", [%d; %s; %d; %d; %d], [%s])' % (el.number, zl(charge), k, qn, qd, enc(v)))
                        meta.append([tname, "ffq", el.number, el.symbol, charge, jn, qn / qd])
        for charge in (0,) + tuple(el.ions):
            for qn, qd in COQ_QGRID:
                v = f0_of(table, el.number, charge, qn / qd)
                cases.append('("f0q", [%d; %s; %d; %d], [%s])' % (el.number, zl(charge), qn, qd, enc(v)))
                meta.append([tname, "f0q", el.number, el.symbol, charge, qn / qd])
    return cases, meta


# ------------------------------------------------------------------ third reading of the table text
def src(name):
    with open(os.path.join(PKGDIR, name), encoding="utf-8") as f:
        return f.read()


def string_const(text, name):
    m = re.search(r'^%s\s*=\s*"""\\?\n(.*?)"""' % name, text, flags=re.S | re.M)
    if not m:
        raise RuntimeError("table %s not found" % name)
    body = m.group(1)
    if body.endswith("\\\n"):
        body = body[:-2]
    return body


def read_cordero():
    """{Z: (r, u)} from the numbered rows, and [(Z, [alternate radii])] from the '-' rows."""
    rows, alts, last = {}, {}, None
    for line in string_const(src("covalent_radius.py"), "Cordero").split("\n"):
        t = line.split()
        if re.fullmatch(r"\d+", t[0]):
            last = int(t[0])
            if last not in rows:
                rows[last] = (float(t[2]), float(t[3]) / 100 if len(t) > 3 else 0.0)
        else:
            alts.setdefault(last, []).append(float(t[2]))
    return rows, alts


def read_crystal():
    text = src("crystal_structure.py")
    m = re.search(r"^crystal_structures\s*=\s*\[\\?\n(.*?)\]\s*#Lw", text, flags=re.S | re.M)
    if not m:
        raise RuntimeError("crystal_structures literal not found")
    out = []
    CRYSTAL_LABELS[:] = []
    for line in m.group(1).rstrip().split("\n"):
        body = line.split("#")[0].strip().rstrip(",")
        out.append(ast.literal_eval(body))
        CRYSTAL_LABELS.append(line.split("#", 1)[1].strip() if "#" in line else None)
    CRYSTAL_LABELS.append("Lw")
    return out


CRYSTAL_LABELS = []


def read_spectral():
    rows = {}
    for line in string_const(src("xsf.py"), "spectral_lines_data").split("\n"):
        sym, ka, kb = line.split()
        rows[sym] = (float(ka), float(kb))
    return rows


CFML_RE = re.compile(r'Magnetic_(Form|j2|j4|j6)\s*\(\s*\d+\s*\)\s*=\s*Magnetic_Form_Type\s*\(\s*"([^"]*)"\s*,\s*\(/([^/]*)/\)\s*\)')


def read_cfml():
    """{(symbol, charge): {set: (7 floats)}}; the key is the letters and the digit of the state label."""
    text = string_const(src("magnetic_ff.py"), "CFML_DATA").replace("&\n", " ")
    out = {}
    n = 0
    for m in CFML_RE.finditer(text):
        kind, label, nums = m.groups()
        label = label.strip()
        if kind == "Form":
            jn = "j0" if label[0] == "M" else "J"
            label = label[1:]
        else:
            jn = kind
        k = re.fullmatch(r"([A-Z]+)(\d)", label)
        key = (k.group(1).capitalize(), int(k.group(2)))
        out.setdefault(key, {})[jn] = tuple(float(x) for x in nums.split(","))
        n += 1
    if n != text.count("Magnetic_Form_Type"):
        raise RuntimeError("third reading of CFML_DATA missed a statement")
    return out


def read_waaskirf():
    """{symbol: (Z, {label: value})} keyed by the #L column labels."""
    lines = open(os.path.join(PKGDIR, "xsf", "f0_WaasKirf.dat")).read().split("\n")
    out = {}
    for i, line in enumerate(lines):
        if line.startswith("#S"):
            _, z, sym = line.split()
            j = i + 1
            while not lines[j].startswith("#L"):
                j += 1
            labels = lines[j].split()[1:]
            vals = [float(x) for x in lines[j + 1].split()]
            if len(labels) != len(vals):
                raise RuntimeError("label/value mismatch in f0_WaasKirf.dat at %s" % sym)
            out[sym] = (int(z), dict(zip(labels, vals)))
    return out


def species(sym):
    m = re.fullmatch(r"([A-Z][a-z]?)(?:(\d)([+-]))?", sym)
    if not m:
        return None
    return m.group(1), (int(m.group(2)) * (1 if m.group(3) == "+" else -1) if m.group(2) else 0)


def close(x, y, scale, tol=1e-12):
    return isinstance(x, float) and abs(x - y) <= tol * max(scale, 1e-300)


def direct(tname, table):
    fails = []

    def fail(kind, key, what, **kw):
        fails.append(dict(signature="C20:%s:%s" % (kind, key), what="[%s table] %s" % (tname, what), table=tname,
                          kind=kind, key=str(key), **kw))

    # --- covalent radius
    rows, alts = read_cordero()
    for el in table:
        z = el.number
        r = attempt(getattr, el, "covalent_radius")
        u = attempt(getattr, el, "covalent_radius_uncertainty")
        if z in rows:
            er, eu = rows[z]
            if not (isinstance(r, float) and r == er):
                whose = [k for k, v in rows.items() if v[0] == r and k != z][:3]
                alt = " (an alternate spin state row)" if isinstance(r, float) and r in alts.get(z, []) else ""
                fail("covalent_radius", "Z=%d" % z, "%s.covalent_radius is %r, the Cordero row of Z=%d says %r%s%s"
                     % (el.symbol, r, z, er, alt, "; that value belongs to Z=%s" % whose if whose and not alt else ""),
                     atom=el.symbol, observed=repr(r), expected=er)
            if not (isinstance(u, float) and close(u, eu, eu)):
                fail("covalent_radius_uncertainty", "Z=%d" % z, "%s.covalent_radius_uncertainty is %r, the Cordero row says %r"
                     % (el.symbol, u, eu), atom=el.symbol, observed=repr(u), expected=eu)
        else:
            if z != 0 and r is not None:
                fail("covalent_radius", "Z=%d" % z, "%s has no Cordero row but covalent_radius is %r" % (el.symbol, r),
                     atom=el.symbol, observed=repr(r), expected=None)
            if u is not None:
                fail("covalent_radius_uncertainty", "Z=%d" % z, "%s has no Cordero row but covalent_radius_uncertainty is %r"
                     % (el.symbol, u), atom=el.symbol, observed=repr(u), expected=None)
    # --- crystal structure
    lit = read_crystal()
    # the list is positional; each entry is labelled in the source with the symbol of its element ("X" for the neutron's
    # slot; "#Th" on slot 65 is a slip in the comment, the entry is terbium's; "Lw" is lawrencium)
    by_label = {}
    for k, lab in enumerate(CRYSTAL_LABELS[:len(lit)]):
        if lab is not None and not (k == 65 and lab == "Th"):
            by_label.setdefault({"X": "n", "Lw": "Lr"}.get(lab, lab), k)
    for el in table:
        k = by_label.get(el.symbol)
        if k is not None and k != el.number:
            s = attempt(getattr, el, "crystal_structure")
            fail("crystal_structure_label", "Z=%d" % el.number, "the entry labelled #%s in crystal_structures is in slot %d, not %d: "
                 "%s.crystal_structure is %r, the entry labelled with its symbol is %r"
                 % (el.symbol, k, el.number, el.symbol, s, lit[k]), atom=el.symbol, observed=repr(s), expected=repr(lit[k]))
    for el in table:
        z = el.number
        s = attempt(getattr, el, "crystal_structure")
        if z < len(lit):
            if isinstance(s, BaseException) or s != lit[z]:
                whose = [k for k, v in enumerate(lit) if v == s and v is not None][:3] if not isinstance(s, BaseException) else []
                fail("crystal_structure", "Z=%d" % z, "%s.crystal_structure is %r, slot %d of crystal_structures is %r%s"
                     % (el.symbol, s, z, lit[z], "; that is slot %s" % whose if whose else ""),
                     atom=el.symbol, observed=repr(s), expected=repr(lit[z]))
        elif not isinstance(s, AttributeError):
            fail("crystal_structure", "Z=%d" % z, "%s is beyond the crystal_structures list but crystal_structure is %r"
                 % (el.symbol, s), atom=el.symbol, observed=repr(s), expected="AttributeError")
    # --- emission lines
    lines = read_spectral()
    for el in table:
        for attr, idx in (("K_alpha", 0), ("K_beta1", 1)):
            v = attempt(getattr, el, attr)
            if el.symbol in lines:
                e = lines[el.symbol][idx]
                if not (isinstance(v, float) and v == e):
                    whose = [k for k, r in lines.items() if r[idx] == v][:3] if isinstance(v, float) else []
                    fail(attr, el.symbol, "%s.%s is %r, the emission-line row says %r%s"
                         % (el.symbol, attr, v, e, "; that value belongs to %s" % whose if whose else ""),
                         atom=el.symbol, observed=repr(v), expected=e)
            elif not (isinstance(v, AttributeError) or v is None):
                fail(attr, el.symbol, "%s has no emission-line row but %s is %r" % (el.symbol, attr, v),
                     atom=el.symbol, observed=repr(v), expected="AttributeError or None")
    # --- magnetic form factors
    cf = read_cfml()
    by_el = {}
    for (sym, ch), sets in cf.items():
        by_el.setdefault(sym, {})[ch] = sets
    for el in table:
        m = attempt(getattr, el, "magnetic_ff")
        exp = by_el.get(el.symbol)
        if exp is None:
            if not isinstance(m, AttributeError) and m is not None:
                fail("magnetic_ff", el.symbol, "%s has no CrysFML entry but magnetic_ff is %r" % (el.symbol, m),
                     atom=el.symbol, observed=repr(m), expected="AttributeError")
            continue
        if not isinstance(m, BaseException) and any(not isinstance(k_, int) or isinstance(k_, bool) for k_ in m):
            fail("magnetic_ff", el.symbol, "%s.magnetic_ff is keyed by %r: the charge states are integers (the CrysFML text lists %s)"
                 % (el.symbol, sorted(map(repr, m)), sorted(exp)), atom=el.symbol, observed=repr(list(m)), expected=sorted(exp))
            continue
        if isinstance(m, BaseException) or sorted(m) != sorted(exp):
            fail("magnetic_ff", el.symbol, "%s.magnetic_ff has charge states %s, the CrysFML text lists %s"
                 % (el.symbol, "raises " + type(m).__name__ if isinstance(m, BaseException) else sorted(m), sorted(exp)),
                 atom=el.symbol, observed=repr(m)[:200], expected=sorted(exp))
            continue
        for q_ in sorted(set(range(-3, 9)) - set(exp)):
            got_ = attempt(lambda: m[q_])
            if not isinstance(got_, (KeyError, IndexError)):
                fail("magnetic_ff", "%s%+d:absent" % (el.symbol, q_), "%s.magnetic_ff[%d] gives %r although the CrysFML text has no entry for that charge "
                     "state (it lists %s)" % (el.symbol, q_, got_, sorted(exp)), atom=el.symbol, charge=q_, expected="KeyError")
                break
        for ch, sets in exp.items():
            ff = m[ch]
            for c2 in el.ions:
                if c2 == ch and attempt(lambda: el.ion[c2].magnetic_ff[c2]) is not ff:
                    fail("magnetic_ff", "%s%d:ion" % (el.symbol, ch), "%s.ion[%d].magnetic_ff[%d] is not the element's entry"
                         % (el.symbol, ch, ch), atom=el.symbol, charge=ch)
            for jn in SETS:
                v = attempt(getattr, ff, jn)
                key = "%s%d.%s" % (el.symbol, ch, jn)
                if jn not in sets:
                    if not isinstance(v, AttributeError):
                        fail("magnetic_ff", key, "%s charge %d has no %s set in the CrysFML text but .%s is %r"
                             % (el.symbol, ch, jn, jn, v), atom=el.symbol, charge=ch, observed=repr(v), expected="AttributeError")
                    continue
                e = sets[jn]
                if isinstance(v, BaseException) or tuple(v) != e:
                    whose = [k for k, s in cf.items() if s.get(jn) == (tuple(v) if not isinstance(v, BaseException) else None)][:3]
                    fail("magnetic_ff", key, "%s.magnetic_ff[%d].%s is %r, the CrysFML entry says %r%s"
                         % (el.symbol, ch, jn, v, e, "; that is the entry of %s" % whose if whose else ""),
                         atom=el.symbol, charge=ch, observed=repr(v), expected=list(e))
                    continue
                A, a, B, b, C, c, D = e
                fn = getattr(ff, jn + "_Q")
                for q in QGRID:
                    s2 = (q / (4 * math.pi)) ** 2
                    core_v = A * math.exp(-a * s2) + B * math.exp(-b * s2) + C * math.exp(-c * s2) + D
                    scale = abs(A) + abs(B) + abs(C) + abs(D)
                    want = core_v if jn in ("j0", "J") else s2 * core_v
                    got = attempt(fn, q)
                    got = float(got) if not isinstance(got, BaseException) else got
                    if not close(got, want, scale * (1 if jn in ("j0", "J") else max(s2, 1e-300)), 1e-11):
                        fail("formfactor", "%s@Q=%g" % (key, q), "%s.magnetic_ff[%d].%s_Q(%g) is %r, the formula on the table "
                             "coefficients gives %r" % (el.symbol, ch, jn, q, got, want), atom=el.symbol, charge=ch, Q=q,
                             observed=repr(got), expected=want)
                        break
                # the whole grid at once, through one float64 array shared by all calls: the values are those of
                # the scalar calls and the caller's array is left alone
                import numpy as _np
                if "QV" not in globals():
                    globals()["QV"] = _np.array(QGRID, dtype=float)
                gv = attempt(fn, QV)
                if not _np.array_equal(QV, _np.array(QGRID, dtype=float)):
                    fail("formfactor_argument", key, "%s.magnetic_ff[%d].%s_Q(Q) overwrote the caller's array Q: %r became %r"
                         % (el.symbol, ch, jn, list(QGRID)[:4], QV.tolist()[:4]), atom=el.symbol, charge=ch)
                    globals()["QV"] = _np.array(QGRID, dtype=float)
                elif isinstance(gv, BaseException) or _np.shape(gv) != (len(QGRID),):
                    fail("formfactor", key + "@vector", "%s.magnetic_ff[%d].%s_Q(array of %d) gives %r" % (el.symbol, ch, jn, len(QGRID), gv),
                         atom=el.symbol, charge=ch)
                else:
                    for q, g in zip(QGRID, gv):
                        s2 = (q / (4 * math.pi)) ** 2
                        core_v = A * math.exp(-a * s2) + B * math.exp(-b * s2) + C * math.exp(-c * s2) + D
                        want = core_v if jn in ("j0", "J") else s2 * core_v
                        if not close(float(g), want, scale * (1 if jn in ("j0", "J") else max(s2, 1e-300)), 1e-11):
                            fail("formfactor", "%s@vector Q=%g" % (key, q), "%s.magnetic_ff[%d].%s_Q(array)[Q=%g] is %r, the formula on "
                                 "the table coefficients gives %r" % (el.symbol, ch, jn, q, float(g), want), atom=el.symbol, charge=ch, Q=q)
                            break
                at0 = attempt(fn, 0.0)
                at0 = float(at0) if not isinstance(at0, BaseException) else at0
                if jn == "j0" and not (isinstance(at0, float) and 0.995 <= at0 <= 1.005):
                    fail("j0_at_zero", key, "%s.magnetic_ff[%d].j0_Q(0) is %r, not within 0.5%% of 1" % (el.symbol, ch, at0),
                         atom=el.symbol, charge=ch, observed=repr(at0))
                if jn in ("j2", "j4", "j6") and not (isinstance(at0, float) and at0 == 0.0):
                    fail("jn_at_zero", key, "%s.magnetic_ff[%d].%s_Q(0) is %r, not 0" % (el.symbol, ch, jn, at0),
                         atom=el.symbol, charge=ch, observed=repr(at0))
            if "j0" in sets:
                mv = attempt(getattr, ff, "M")
                if isinstance(mv, BaseException) or tuple(mv) != sets["j0"]:
                    fail("magnetic_ff", "%s%d.M" % (el.symbol, ch), "%s.magnetic_ff[%d].M is %r, not the j0 entry"
                         % (el.symbol, ch, mv), atom=el.symbol, charge=ch, observed=repr(mv))
    # --- Cromer-Mann
    wk = read_waaskirf()
    keyed = {}
    for sym, (z, cols) in wk.items():
        f = attempt(cromermann.getCMformula, sym)
        ea = [cols["a%d" % i] for i in range(1, 6)]
        eb = [cols["b%d" % i] for i in range(1, 6)]
        if isinstance(f, BaseException) or f.symbol != sym or list(f.a) != ea or list(f.b) != eb or f.c != cols["c"]:
            fail("cromermann", sym, "getCMformula(%r) gives %s, the file columns a1..a5 c b1..b5 say a=%r b=%r c=%r"
                 % (sym, "raises " + type(f).__name__ if isinstance(f, BaseException) else
                    "a=%r b=%r c=%r" % (list(f.a), list(f.b), f.c), ea, eb, cols["c"]), symbol=sym)
        sp = species(sym)
        if sp is not None:
            keyed[(z, sp[1])] = (sym, ea, eb, cols["c"])
            if table[z].symbol != sp[0]:
                fail("cromermann", sym, "file header says Z=%d for %s but element %d is %s" % (z, sym, z, table[z].symbol), symbol=sym)
    for el in table:
        for charge in (0,) + tuple(el.ions):
            got0 = f0_of(table, el.number, charge, 0.0)
            if (el.number, charge) not in keyed:
                if not isinstance(got0, KeyError):
                    fail("f0", "%s{%d}" % (el.symbol, charge), "%s charge %d has no Cromer-Mann entry but xray.f0(0) is %r"
                         % (el.symbol, charge, got0), atom=el.symbol, charge=charge, observed=repr(got0), expected="KeyError")
                continue
            sym, ea, eb, ec = keyed[(el.number, charge)]
            for q in QGRID:
                stol2 = (q / (4 * math.pi)) ** 2
                want = sum(a * math.exp(-b * stol2) for a, b in zip(ea, eb)) + ec
                got = f0_of(table, el.number, charge, q)
                got = float(got) if not isinstance(got, BaseException) else got
                if not close(got, want, sum(abs(a) for a in ea) + abs(ec), 1e-11):
                    fail("f0", "%s{%d}@Q=%g" % (el.symbol, charge, q), "%s charge %d: xray.f0(%g) is %r, the entry %s gives %r"
                         % (el.symbol, charge, q, got, sym, want), atom=el.symbol, charge=charge, Q=q, observed=repr(got), expected=want)
                    break
    return fails


def private_first():
    """the other order: a private table is created and all five ancillary groups are initialised on it before the public
    table has served anything; then both tables are held against the table text"""
    priv = core.PeriodicTable("verif_c20_first")
    covalent_radius.init(priv)
    crystal_structure.init(priv)
    xsf.init(priv)
    xsf.init_spectral_lines(priv)
    magnetic_ff.init(priv)
    fails = direct("public", periodictable.elements) + direct("private", priv)
    for f in fails:
        f["signature"] = f["signature"].replace("C20:", "C20:private-first:", 1)
        f["what"] = "[a private table was created and initialised before the public table was touched] " + f["what"]
    json.dump(dict(direct_fails=fails), sys.stdout)


def main():
    if len(sys.argv) > 2 and sys.argv[2] == "--private-first":
        return private_first()
    pub = periodictable.elements
    c1, m1 = sweep("public", pub)
    priv = core.PeriodicTable("verif_c20")
    covalent_radius.init(priv)
    crystal_structure.init(priv)
    xsf.init(priv)
    xsf.init_spectral_lines(priv)
    magnetic_ff.init(priv)
    c2, m2 = sweep("private", priv)
    listed = list(read_waaskirf())
    c3, m3 = cm_cases(pub, listed)
    f1, fm1 = ff_cases("public", pub)
    f2, fm2 = ff_cases("private", priv)
    ffc, ffm, seen = [], [], set()
    for c, m in zip(f1 + f2, fm1 + fm2):      # the model does not depend on the table: identical cases once
        if c not in seen:
            seen.add(c)
            ffc.append(c)
            ffm.append(m)
    fails = direct("public", pub) + direct("private", priv)
    # the owner of a second private table edits what that table serves, in place; the public table and the first
    # private table still serve the embedded entries
    try:
        priv2 = core.PeriodicTable("verif_c20_edited")
        for mod_ in (covalent_radius, crystal_structure, magnetic_ff):
            mod_.init(priv2)
        xsf.init(priv2)
        xsf.init_spectral_lines(priv2)
        edits = []
        for el in priv2:
            cs = getattr(el, "crystal_structure", None)
            if isinstance(cs, dict):
                for k in list(cs):
                    cs[k] = "edited" if isinstance(cs[k], str) else 99.0
                cs["extra"] = 1
                edits.append("verif_c20_edited.%s.crystal_structure[...] = ..." % el.symbol)
            for k, v in list(getattr(getattr(el, "magnetic_ff", None), "items", dict)()):
                for nm in ("M", "j0", "j2", "j4", "j6", "J"):
                    if isinstance(getattr(v, nm, None), list):
                        getattr(v, nm)[:] = [0.0] * len(getattr(v, nm))
        before = {(f["signature"], f.get("key"), f.get("table")) for f in fails}
        for f in direct("public", pub) + direct("private", priv):
            if (f["signature"], f.get("key"), f.get("table")) not in before:
                f["signature"] = f["signature"].replace("C20:", "C20:after-private-edit:", 1)
                f["what"] = "[after every crystal_structure dictionary of another private table was edited in place] " + f["what"]
                fails.append(f)
    except Exception as e:  # noqa
        fails.append(dict(signature="C20:after-private-edit:raises", what="editing a second private table raised %s: %s" % (type(e).__name__, e),
                          table="public", kind="raises", key="edit"))
    try:
        import subprocess
        p2 = subprocess.run([sys.executable, os.path.abspath(__file__), TIER, "--private-first"], stdout=subprocess.PIPE,
                            stderr=subprocess.PIPE, text=True, timeout=1200, cwd="/")
        if p2.returncode == 0:
            fails += json.loads(p2.stdout)["direct_fails"][:6]
        else:
            fails.append(dict(signature="C20:private-first:raises", what="with a private table initialised first the checks raise: %s"
                              % p2.stderr[-400:], table="public", kind="raises", key="order"))
    except Exception as e:  # noqa
        fails.append(dict(signature="C20:private-first:raises", what="private-first order did not run: %s" % e, table="public",
                          kind="raises", key="order"))
    counts = dict(
        radii=sum(1 for el in pub if el.covalent_radius is not None),
        structure_slots=sum(1 for el in pub if hasattr(el, "crystal_structure")),
        emission_rows=sum(1 for el in pub if hasattr(el, "K_alpha")),
        magnetic_elements=sum(1 for el in pub if hasattr(el, "magnetic_ff")),
        magnetic_charge_states=sum(len(el.magnetic_ff) for el in pub if hasattr(el, "magnetic_ff")),
        magnetic_sets=sum(len(ff.__dict__) for el in pub if hasattr(el, "magnetic_ff") for ff in el.magnetic_ff.values()),
        cromer_mann=len(cromermann._cmformulas))
    out = dict(cases=c1 + c2 + c3, meta=m1 + m2 + m3, direct_fails=fails, counts=counts,
               ff_cases=ffc, ff_meta=ffm, ff_total=len(f1) + len(f2), coq_qgrid=[qn / qd for qn, qd in COQ_QGRID],
               qgrid=[QGRID[0], QGRID[-1], len(QGRID)], n_public=len(c1), n_private=len(c2), n_module=len(c3))
    json.dump(out, sys.stdout)


main()
