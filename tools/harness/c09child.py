"""C09/C10 child: ONE fresh interpreter executes one history of first-touch events on the real
library and prints, as one JSON document, the outcome of every event.

Started by tools/harness/c09.py / c10.py as  `python c09child.py '<json>'`  with PYTHONPATH=/repo.
The JSON holds {"events": [...], "panel": bool}.  Events (lists):

  ["read", T, atom, name]    value of T.atom.name (deep view, digested)
  ["has",  T, atom, name]    hasattr(T.atom, name)
  ["set",  T, atom, name]    T.atom.name = ("verif_user", T)
  ["mut",  T, atom, name]    in-place mutation of the object T.atom.name AND of every mutable object a user reaches
                             from it (dict values, list items, attributes, magnetic_ff[charge], activation records,
                             the numpy array of xray.sftable, neutron.nsf_table): objects get a mark naming T,
                             arrays are really overwritten in place (x2) and remembered
  ["import", module]         import periodictable.<module>
  ["calc", calc, T]          a calculator call (see CALCS)
  ["init", key, T]           <module>.<function>(T), key e.g. "nsf.init", "xsf.init_spectral_lines"
  ["new",  T]                T = PeriodicTable(T); mass.init(T)   (isotopes exist only after mass.init)
  ["parse", T]               formula("Fe2O3", table=T): are all atoms atoms of T?
  ["pickle", T, atom]        pickle round trip of T.atom: restored into T?

T is "pub", "p1" or "p2"; atoms are the representatives of Model/Attr.v (ATOMS below).
Nothing here knows what the right answer is: classification against the canonical order is done by
the parent, prediction by the Coq model."""
import sys, json, hashlib, importlib, pickle

ATOMS = {
    "En": lambda t: t[0],
    "E1": lambda t: t.Fe,
    "E0": lambda t: t.Rf,
    "I11": lambda t: t.Fe[58],
    "I01": lambda t: t.Fe[45],
    "I00": lambda t: t.Rf[261],
    "XE1": lambda t: t.Fe.ion[2],
    "XE0": lambda t: t.Rf.ion[4],
    "XI11": lambda t: t.Fe[58].ion[2],
    "XI01": lambda t: t.Fe[45].ion[2],
}
MARK = "verif_mark"
USER = "verif_user"
# numeric per-atom data (_mass, _density) are assigned a recognisable number instead of the tuple
USER_FLOAT = {"p1": 4242.4201, "p2": 4242.4202, "pub": 4242.4200}


def err_kind(e):
    n = type(e).__name__
    return {"AttributeError": "AttrErr", "AssertionError": "AssertErr", "ValueError": "ValueErr",
            "TypeError": "TypeErr", "KeyError": "KeyErr", "RecursionError": "RecursionErr",
            "RuntimeError": "RuntimeErr", "ZeroDivisionError": "ZeroDivErr", "IndexError": "IndexErr"}.get(n, "OtherErr")


class Viewer:
    """Deep, address-free view of a served value; atoms inside a value are named relative to the
    table the value was read from ("OWN" / other table name); mutation marks are collected apart."""

    def __init__(self, own):
        self.own = own
        self.marks = set()
        self.where = {}         # table -> places in the value where its mark was found ("" = the object itself)
        self.path = []

    def found(self, tables):
        self.marks.update(tables)
        for t in tables:
            self.where.setdefault(t, set()).add(".".join(self.path))

    def atom(self, a):
        from periodictable import core
        ch = 0
        if isinstance(a, core.Ion):
            ch = a.charge
            a = a.element
        iso = 0
        if isinstance(a, core.Isotope):
            iso = a.isotope
            a = a.element
        tname = a.table
        return ["atom", a.symbol, iso, ch, "OWN" if tname == self.own else tname]

    def view(self, v, depth=0):
        from periodictable import core
        import numpy as np
        if depth > 8:
            return "<deep>"
        if v is None or isinstance(v, (bool, int, str)):
            return v
        if isinstance(v, float):
            for t, x in USER_FLOAT.items():
                if v == x:
                    return [USER, t]
            return repr(v)
        if isinstance(v, complex):
            return ["complex", repr(v.real), repr(v.imag)]
        if isinstance(v, np.generic):
            return self.view(v.item(), depth)
        if isinstance(v, np.ndarray):
            shown = v
            for arr, orig, tabs in MUTATED:
                if np.shares_memory(v, arr):
                    self.found(tabs)
                    if v.shape == orig.shape:
                        shown = orig        # the digest is that of the data before the marked overwrite
            return ["array", list(shown.shape), hashlib.sha1(repr(shown.tolist()).encode()).hexdigest()[:12]]
        if isinstance(v, (core.Element, core.Isotope, core.Ion)):
            return self.atom(v)
        if isinstance(v, tuple):
            if len(v) == 2 and v[0] == MARK:
                self.found(v[1])
                return None
            if len(v) == 2 and v[0] == USER:
                return [USER, v[1]]
            return ["tuple"] + [self.sub(str(i), x, depth) for i, x in enumerate(v)]
        if isinstance(v, list):
            out = []
            for i, x in enumerate(v):
                if isinstance(x, tuple) and len(x) == 2 and x[0] == MARK:
                    self.found(x[1])
                else:
                    out.append(self.sub("[]", x, depth))
            return ["list"] + out
        if isinstance(v, dict):
            out = []
            for k in sorted(v, key=repr):
                if k == MARK:
                    self.found(v[k])
                else:
                    out.append([self.view(k, depth + 1), self.sub("[%s]" % (k,), v[k], depth)])
            return ["dict"] + out
        if hasattr(v, "__dict__"):
            d = dict(v.__dict__)
            name = type(v).__name__
            extra = []
            if name == "Xray":
                d.pop("_table", None)          # file cache: load state is not a served value
                try:
                    t = v.sftable
                    extra = [["sftable", self.sub("sftable", t, depth)]]
                except Exception as e:  # noqa
                    extra = [["sftable", "raises " + err_kind(e)]]
            out = []
            for k in sorted(d):
                if k == MARK:
                    self.found(d[k])
                else:
                    out.append([k, self.sub(k, d[k], depth)])
            return ["obj", name] + out + extra
        return ["repr", type(v).__name__]


def _sub(self, name, x, depth):
    self.path.append(name)
    try:
        return self.view(x, depth + 1)
    finally:
        self.path.pop()


Viewer.sub = _sub
MUTATED = []        # (array overwritten in place, copy of its data before, set of tables that did it)


def digest(x):
    return hashlib.sha1(json.dumps(x, sort_keys=True).encode()).hexdigest()[:16]


def mark(obj, tname, depth=0, seen=None):
    """in-place mutation, by table tname, of obj and of every mutable object reachable from it the way a user
    reaches it; returns False when there was nothing mutable"""
    import numpy as np
    from periodictable import core
    seen = set() if seen is None else seen
    if depth > 4 or id(obj) in seen or isinstance(obj, (core.Element, core.Isotope, core.Ion)):
        return False
    seen.add(id(obj))
    if obj is None or isinstance(obj, (bool, int, float, str, complex)):
        return False
    if isinstance(obj, np.ndarray):
        if not obj.flags.writeable or obj.dtype.kind not in "fc" or obj.size == 0:
            return False
        for ent in MUTATED:
            if np.shares_memory(obj, ent[0]):
                ent[2].add(tname)
                break
        else:
            MUTATED.append((obj, obj.copy(), {tname}))
        obj *= 2            # a real overwrite: everything computed from the array changes
        return True
    if isinstance(obj, tuple):
        if len(obj) == 2 and obj[0] in (MARK, USER):
            return False
        return any([mark(x, tname, depth + 1, seen) for x in obj])
    if isinstance(obj, dict):
        for k in list(obj):
            if k != MARK:
                mark(obj[k], tname, depth + 1, seen)
        obj[MARK] = sorted(set(obj.get(MARK, [])) | {tname})
        return True
    if isinstance(obj, list):
        old = [x for x in obj if isinstance(x, tuple) and len(x) == 2 and x[0] == MARK]
        names = set([tname])
        for x in old:
            names.update(x[1])
            obj.remove(x)
        for x in list(obj):
            mark(x, tname, depth + 1, seen)
        obj.append((MARK, sorted(names)))
        return True
    if hasattr(obj, "__dict__"):
        for k, v in list(obj.__dict__.items()):
            if k != MARK:
                mark(v, tname, depth + 1, seen)
        if type(obj).__name__ == "Xray":
            try:
                mark(obj.sftable, tname, depth + 1, seen)
            except Exception:  # noqa
                pass
        obj.__dict__[MARK] = sorted(set(obj.__dict__.get(MARK, [])) | {tname})
        return True
    return False


def main():
    job = json.loads(sys.argv[1])
    import periodictable as pt
    from periodictable import core
    tables = {"pub": pt.elements}

    def atom(T, a):
        return ATOMS[a](tables[T])

    def served(T, val):
        vw = Viewer(tables[T][1].table)
        x = vw.view(val)
        if isinstance(x, list) and len(x) == 2 and x[0] == USER:
            return dict(k="user", t=x[1])
        return dict(k="val", d=digest(x), marks=sorted(vw.marks),
                    where={t: sorted(p) for t, p in vw.where.items()})

    def calc(name, T):
        t = tables[T]
        from periodictable import formulas
        if name == "neutron_sld":
            return pt.neutron_sld(formulas.formula("Fe", table=t))
        if name == "neutron_sld_iso":
            return pt.neutron_sld(formulas.formula("Fe[58]", table=t))
        if name == "xray_sld":
            return pt.xray_sld(formulas.formula("Fe", table=t), energy=8.0)
        if name == "xray_sld_ion":
            return pt.xray_sld(formulas.formula("Fe{2+}", table=t), energy=8.0)
        if name == "magnetic_j0":
            return t.Fe.magnetic_ff[2].j0_Q(0.0)
        if name == "activation":
            from periodictable import activation
            env = activation.ActivationEnvironment(fluence=1e8, Cd_ratio=70, fast_ratio=50, location="BT-2")
            s = activation.Sample(formulas.formula("Fe", table=t), 1.0)
            s.calculate_activation(env, exposure=10.0, rest_times=(0, 1))
            return sorted((str(k.isotope), k.daughter, repr(v[0])) for k, v in s.activity.items())
        if name == "water":     # the composite numbers everybody computes first
            if t is pt.elements:
                return [pt.neutron_sld("H2O@1"), pt.xray_sld("H2O@1", energy=8.0), pt.neutron_sld("D2O@1.1")]
            return [pt.neutron_sld(formulas.formula("H2O@1", table=t)),
                    pt.xray_sld(formulas.formula("H2O@1", table=t), energy=8.0),
                    pt.neutron_sld(formulas.formula("D2O@1.1", table=t))]
        raise ValueError("unknown calculator " + name)

    out = []
    for ev in job["events"]:
        kind = ev[0]
        try:
            if kind == "read":
                out.append(served(ev[1], getattr(atom(ev[1], ev[2]), ev[3])))
            elif kind == "has":
                out.append(dict(k="bool", b=bool(hasattr(atom(ev[1], ev[2]), ev[3]))))
            elif kind == "indict":
                out.append(dict(k="bool", b=bool(ev[3] in atom(ev[1], ev[2]).__dict__)))
            elif kind == "set":
                setattr(atom(ev[1], ev[2]), ev[3], USER_FLOAT[ev[1]] if ev[3] in ("_mass", "_density") else (USER, ev[1]))
                out.append(dict(k="ok"))
            elif kind == "mut":
                ok = mark(getattr(atom(ev[1], ev[2]), ev[3]), ev[1])
                out.append(dict(k="ok" if ok else "imm"))
            elif kind == "import":
                importlib.import_module("periodictable." + ev[1])
                out.append(dict(k="ok"))
            elif kind == "calc":
                out.append(served(ev[2], calc(ev[1], ev[2])))
            elif kind == "init":
                mod, fn = ev[1].split(".")
                m = importlib.import_module("periodictable." + mod)
                getattr(m, fn)(tables[ev[2]])
                out.append(dict(k="ok"))
            elif kind == "new":
                tables[ev[1]] = core.PeriodicTable(ev[1])
                from periodictable import mass
                mass.init(tables[ev[1]])
                out.append(dict(k="ok"))
            elif kind == "parse":
                from periodictable import formulas
                t = tables[ev[1]]

                def of_t(a):
                    x = t[a.number]
                    el = a.element if core.ision(a) else a
                    if core.isisotope(el):
                        x = x[el.isotope]
                    if core.ision(a):
                        x = x.ion[a.charge]
                    return x is a
                # every way a string is turned into a formula with table=T (several elements per component and densities written out,
                # so that no property group of T is touched)
                routes = [("formula('Fe2O3', table=T)", lambda: formulas.formula("Fe2O3", table=t)),
                          ("formula('Fe[58]{2+}O{2-} + 2D2O', table=T)", lambda: formulas.formula("Fe[58]{2+}O{2-} + 2D2O", table=t)),
                          ("formula('50 wt% FeO@5.7 // NiO@6.67', table=T)", lambda: formulas.formula("50 wt% FeO@5.7 // NiO@6.67", table=t)),
                          ("formula('50 vol% FeO@5.7 // NiO@6.67', table=T)", lambda: formulas.formula("50 vol% FeO@5.7 // NiO@6.67", table=t)),
                          ("formula('5g NaCl // 50mL H2O@1', table=T)", lambda: formulas.formula("5g NaCl // 50mL H2O@1", table=t)),
                          ("formula('5 nm FeO@5.7 // 2 um NiO@6.67', table=T)", lambda: formulas.formula("5 nm FeO@5.7 // 2 um NiO@6.67", table=t)),
                          ("mix_by_weight('FeO', 1, 'NiO', 2, table=T)", lambda: formulas.mix_by_weight("FeO", 1, "NiO", 2, table=t)),
                          ("mix_by_volume('H2O@1', 3, 'D2O@1.1', 2, table=T)", lambda: formulas.mix_by_volume("H2O@1", 3, "D2O@1.1", 2, table=t)),
                          ("formula('aa:GA', table=T)", lambda: formulas.formula("aa:GA", table=t)),
                          ("formula('dna:ACGT', table=T)", lambda: formulas.formula("dna:ACGT", table=t))]
                bad = []
                for label, fn in routes:
                    f = fn()
                    if not all(of_t(a) for a in f.atoms):
                        bad.append(label)
                out.append(dict(k="bool", b=not bad, msg="; ".join(bad)))
            elif kind == "pickle":
                a = atom(ev[1], ev[2])
                b = pickle.loads(pickle.dumps(a))
                out.append(dict(k="bool", b=bool(b is a)))
            else:
                raise ValueError("unknown event " + repr(ev))
        except RecursionError as e:
            out.append(dict(k="err", e="RecursionErr"))
        except Exception as e:  # noqa
            out.append(dict(k="err", e=err_kind(e), msg=str(e)[:120]))
    res = dict(out=out)
    if job.get("state"):
        # abstract state as seen from outside: which class attributes are pending / data, table.properties
        st = {}
        for cls in (core.Element, core.Isotope, core.Ion):
            for k, v in cls.__dict__.items():
                if isinstance(v, property) and v.fget is not None and v.fget.__name__ == "getfn":
                    st[cls.__name__ + "." + k] = "pending"
        res["pending"] = sorted(st)
        res["props"] = {T: list(t.properties) for T, t in tables.items()}
    print(json.dumps(res))


if __name__ == "__main__":
    main()
