"""C10, the core data of freshly created tables: "a freshly initialised private table serves the same values as the
public one" also for what every table has from its constructor and from mass.init / density.init - symbol, name,
oxidation states (.ions), the isotope lists, masses, densities - and creating further tables changes none of them.
The oxidation states are compared with core.element_base as written in the source text (read with ast, so that a
constructor which edits the module-level table in place is seen).

  c10core.py <seed> <tier>   -> JSON {direct_fails, stats}      (runs itself in a fresh interpreter)
"""
import sys, os, json, ast


def source_element_base(repo):
    src = open(os.path.join(repo, "periodictable", "core.py")).read()
    tree = ast.parse(src)
    for node in ast.walk(tree):
        if isinstance(node, ast.Assign) and any(isinstance(t, ast.Name) and t.id == "element_base" for t in node.targets):
            return ast.literal_eval(node.value)
    raise ValueError("element_base not found as a literal in core.py")


def view(table):
    out = {}
    for el in table:
        out[el.number] = dict(symbol=el.symbol, name=el.name, ions=list(el.ions), isotopes=list(el.isotopes),
                              mass=repr(getattr(el, "_mass", None)), density=repr(getattr(el, "_density", None)),
                              iso_mass=[repr(el[a].mass) for a in el.isotopes[:3]],
                              iso_abundance=[repr(el[a].abundance) for a in el.isotopes[:3]])
    return out


def main():
    repo = os.environ.get("VERIF_REPO", "/repo")
    fails = []

    def fail(sig, what, **kw):
        if sum(1 for f in fails if f["signature"] == sig) < 2:
            fails.append(dict(signature=sig, what=what, history=kw.pop("history", []), history_text=kw.pop("history_text", []),
                              outcomes=[], **kw))
    base = source_element_base(repo)
    import periodictable as pt
    from periodictable import core, mass, density
    pub0 = view(pt.elements)
    tables, texts = {}, []
    for name in ("q1", "q2", "q3"):
        t = core.PeriodicTable(name)
        mass.init(t)
        density.init(t)
        tables[name] = t
        texts.append("%s = PeriodicTable(%r); mass.init(%s); density.init(%s)" % (name, name, name, name))
        v = view(t)
        for z, rec in v.items():
            want_ions = sorted(base[z][2] + base[z][3])
            if rec["ions"] != want_ions:
                fail("C10:fresh-private-differs:core.ions", "after [%s], %s.%s.ions is %r; element_base in core.py lists %r"
                     % ("; ".join(texts), name, rec["symbol"], rec["ions"], want_ions), history_text=list(texts), table=name, Z=z)
            if rec != pub0[z]:
                k = next(k for k in rec if rec[k] != pub0[z][k])
                fail("C10:fresh-private-differs:core.%s" % k, "after [%s], %s.%s.%s is %r, the public table serves %r"
                     % ("; ".join(texts), name, rec["symbol"], k, rec[k], pub0[z][k]), history_text=list(texts), table=name, Z=z)
        pub = view(pt.elements)
        if pub != pub0:
            z = next(z for z in pub if pub[z] != pub0[z])
            k = next(k for k in pub[z] if pub[z][k] != pub0[z][k])
            fail("C10:public-changed-by-table-creation", "after [%s], elements.%s.%s is %r, before it was %r"
                 % ("; ".join(texts), pub[z]["symbol"], k, pub[z][k], pub0[z][k]), history_text=list(texts), Z=z)
        for other, t2 in tables.items():
            if other != name and view(t2) != v:
                fail("C10:private-changed-by-other-private-init:core", "after [%s], the tables %s and %s serve different core data"
                     % ("; ".join(texts), other, name), history_text=list(texts))
    for z, rec in pub0.items():
        want_ions = sorted(base[z][2] + base[z][3])
        if rec["ions"] != want_ions:
            fail("C10:public-core.ions", "elements.%s.ions is %r; element_base in core.py lists %r" % (rec["symbol"], rec["ions"], want_ions), Z=z)
    json.dump(dict(direct_fails=fails, stats=dict(tables=len(tables), elements=len(pub0))), sys.stdout)


main()
