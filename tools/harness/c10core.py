"""C10, the core data of freshly created tables: "a freshly initialised private table serves the same values as the
public one" also for what every table has from its constructor and from mass.init / density.init - symbol, name,
oxidation states (.ions), the isotope lists, masses, densities - and creating further tables changes none of them.
The oxidation states are compared with core.element_base as written in the source text (read with ast, so that a
constructor which edits the module-level table in place is seen).

  c10core.py <seed> <tier>   -> JSON {direct_fails, stats}      (runs itself in a fresh interpreter)
"""
import sys, os, json, ast


def source_element_base(repo):
    src = open(os.path.join(repo, "periodictable", "core.py")).read()
    tree = ast.parse(src)
    for node in ast.walk(tree):
        if isinstance(node, ast.Assign) and any(isinstance(t, ast.Name) and t.id == "element_base" for t in node.targets):
            return ast.literal_eval(node.value)
    raise ValueError("element_base not found as a literal in core.py")


def view(table):
    out = {}
    for el in table:
        out[el.number] = dict(symbol=el.symbol, name=el.name, ions=list(el.ions), isotopes=list(el.isotopes),
                              mass=repr(getattr(el, "_mass", None)), density=repr(getattr(el, "_density", None)),
                              iso_mass=[repr(el[a].mass) for a in el.isotopes[:3]],
                              iso_abundance=[repr(el[a].abundance) for a in el.isotopes[:3]])
    return out


LAZY = ["xray", "neutron", "covalent_radius", "covalent_radius_uncertainty", "covalent_radius_units", "crystal_structure",
        "magnetic_ff", "K_alpha", "K_beta1", "K_alpha_units", "neutron_activation"]


def deep(v, own, depth=0):
    """address-free view of a served value; atoms are named relative to the table they were read from"""
    import numpy as np
    from periodictable import core
    if v is None or isinstance(v, (bool, int, str)):
        return v
    if isinstance(v, float):
        return repr(v)
    if isinstance(v, complex):
        return [repr(v.real), repr(v.imag)]
    if isinstance(v, (core.Element, core.Isotope, core.Ion)):
        t = getattr(v, "table", None) or getattr(getattr(v, "element", None), "table", "?")
        return "atom:%r@%s" % (v, "OWN" if t == own else t)
    if isinstance(v, np.ndarray):
        return ["array", list(v.shape), hash(np.ascontiguousarray(v).tobytes())]
    if isinstance(v, np.generic):
        return repr(v.item())
    if depth > 5:
        return "..."
    if isinstance(v, (list, tuple)):
        return [deep(x, own, depth + 1) for x in v]
    if isinstance(v, dict):
        return {str(k): deep(x, own, depth + 1) for k, x in sorted(v.items(), key=lambda kv: str(kv[0]))}
    if hasattr(v, "__dict__"):
        return {"class": type(v).__name__, **{k: deep(x, own, depth + 1) for k, x in sorted(vars(v).items())}}
    return repr(type(v))


def lazy_view(table, own):
    """every lazily loaded value of every element, of its first and last isotope and of its first ion"""
    out = {}
    for el in table:
        atoms = [("", el)] + [("[%d]" % a, el[a]) for a in sorted(set(el.isotopes[:1] + el.isotopes[-1:]))]
        if el.ions:
            atoms.append((".ion[%d]" % el.ions[0], el.ion[el.ions[0]]))
        for label, atom in atoms:
            for name in LAZY:
                try:
                    v = getattr(atom, name)
                    if name == "xray":
                        tab_ = deep(v.sftable, own)     # (read first: the object caches it)
                        v = dict(obj=deep(v, own), sftable=tab_)
                    d = deep(v, own)
                except Exception as e:  # noqa
                    d = "raises " + type(e).__name__
                out["%s%s.%s" % (el.symbol, label, name)] = json.dumps(d, sort_keys=True)
    return out


def lazy_breadth(fail):
    """a private table with every property group initialised serves, atom by atom, what the public table serves"""
    import periodictable as pt
    from periodictable import core, mass, density, nsf, xsf, covalent_radius, crystal_structure, magnetic_ff, activation
    t = core.PeriodicTable("qall")
    text = ["qall = PeriodicTable('qall')"]
    for mod, fn in ((mass, "init"), (density, "init"), (nsf, "init"), (xsf, "init"), (xsf, "init_spectral_lines"), (covalent_radius, "init"),
                    (crystal_structure, "init"), (magnetic_ff, "init"), (activation, "init")):
        getattr(mod, fn)(t)
        text.append("%s.%s(qall)" % (mod.__name__.split(".")[-1], fn))
    pv, qv = lazy_view(pt.elements, "public"), lazy_view(t, "qall")
    bad = [k for k in pv if pv[k] != qv.get(k)]
    for k in per_group(bad):
        group = k.rsplit(".", 1)[1]
        fail("C10:fresh-private-differs:atoms:%s" % group, "after [%s], qall.%s serves %s; elements.%s serves %s  (%d such values)"
             % ("; ".join(text), k, qv.get(k, "nothing")[:160], k, pv[k][:160], len(bad)), history_text=list(text), key=k)
    return len(pv)


def per_group(keys, n=2):
    """the first n keys of each property group"""
    out, cnt = [], {}
    for k in keys:
        g = k.rsplit(".", 1)[1]
        cnt[g] = cnt.get(g, 0) + 1
        if cnt[g] <= n:
            out.append(k)
    return out


def edit_in_place(v, seen, depth=0):
    """edit every container reachable from a served value in place (arrays rescaled, list and dict entries replaced);
    objects are only walked, their attributes are not re-assigned.  Returns the number of containers edited."""
    import numpy as np
    from periodictable import core
    if v is None or isinstance(v, (bool, int, float, complex, str, core.Element, core.Isotope, core.Ion, core.PeriodicTable)) or id(v) in seen or depth > 6:
        return 0
    seen.add(id(v))
    if isinstance(v, np.ndarray):
        if v.size and v.flags.writeable and v.dtype.kind in "fc":
            v[...] = v * 0.5 + 1.0
            return 1
        return 0
    n = 0
    if isinstance(v, list):
        for i, x in enumerate(v):
            if isinstance(x, (int, float)) and not isinstance(x, bool):
                v[i] = 12345.0
                n = 1
            else:
                n += edit_in_place(x, seen, depth + 1)
        return n
    if isinstance(v, dict):
        for k, x in list(v.items()):
            if isinstance(x, (int, float, str)) and not isinstance(x, bool):
                v[k] = 12345.0
                n = 1
            else:
                n += edit_in_place(x, seen, depth + 1)
        return n
    if isinstance(v, tuple):
        return sum(edit_in_place(x, seen, depth + 1) for x in v)
    if hasattr(v, "__dict__"):
        return sum(edit_in_place(x, seen, depth + 1) for x in vars(v).values())
    return 0


def edit_breadth(fail):
    """every container served by a fully initialised private table is edited in place; the public table, and a private
    table initialised afterwards, serve what the public table served before"""
    import periodictable as pt
    from periodictable import core, mass, density, nsf, xsf, covalent_radius, crystal_structure, magnetic_ff, activation
    inits = ((mass, "init"), (density, "init"), (nsf, "init"), (xsf, "init"), (xsf, "init_spectral_lines"), (covalent_radius, "init"),
             (crystal_structure, "init"), (magnetic_ff, "init"), (activation, "init"))
    pv = lazy_view(pt.elements, "public")
    t = core.PeriodicTable("qedit")
    for mod, fn in inits:
        getattr(mod, fn)(t)
    seen, edited, per = set(), 0, {}
    for el in t:
        atoms = [el] + [el[a] for a in sorted(set(el.isotopes[:1] + el.isotopes[-1:]))] + ([el.ion[el.ions[0]]] if el.ions else [])
        for atom in atoms:
            for name in LAZY:
                try:
                    v = getattr(atom, name)
                    k = edit_in_place(v, seen)
                    if name == "xray":
                        k += edit_in_place(v.sftable, seen)
                except Exception:  # noqa
                    k = 0
                edited += k
                per[name] = per.get(name, 0) + k
    text = ["qedit = PeriodicTable('qedit')", "every property group initialised on qedit",
            "every array, list and dictionary served by qedit's atoms edited in place (%d containers)" % edited]
    after = lazy_view(pt.elements, "public")
    bad = [k for k in pv if pv[k] != after[k]]
    for k in per_group(bad):
        fail("C10:public-changed-by-private-edit:in-place:%s" % k.rsplit(".", 1)[1], "after [%s], elements.%s serves %s; before it served %s  (%d such values)"
             % ("; ".join(text), k, after[k][:160], pv[k][:160], len(bad)), history_text=list(text), key=k)
    t2 = core.PeriodicTable("qlater")
    for mod, fn in inits:
        getattr(mod, fn)(t2)
    lv = lazy_view(t2, "qlater")
    pub_as_later = {k: v.replace("@public", "@OWN") for k, v in pv.items()}
    bad2 = [k for k in pv if pub_as_later[k] != lv.get(k)]
    for k in per_group(bad2):
        fail("C10:fresh-private-differs:after-in-place-edit:%s" % k.rsplit(".", 1)[1], "after [%s; qlater = PeriodicTable('qlater'), every group initialised], "
             "qlater.%s serves %s; the public table served %s  (%d such values)" % ("; ".join(text), k, lv.get(k, "nothing")[:160], pv[k][:160], len(bad2)),
             history_text=list(text), key=k)
    return dict(containers_edited=edited, per_group=per)


def main():
    repo = os.environ.get("VERIF_REPO", "/repo")
    fails = []

    def fail(sig, what, **kw):
        if sum(1 for f in fails if f["signature"] == sig) < 2:
            fails.append(dict(signature=sig, what=what, history=kw.pop("history", []), history_text=kw.pop("history_text", []),
                              outcomes=[], **kw))
    base = source_element_base(repo)
    import periodictable as pt
    from periodictable import core, mass, density
    pub0 = view(pt.elements)
    tables, texts = {}, []
    for name in ("q1", "q2", "q3"):
        t = core.PeriodicTable(name)
        mass.init(t)
        density.init(t)
        tables[name] = t
        texts.append("%s = PeriodicTable(%r); mass.init(%s); density.init(%s)" % (name, name, name, name))
        v = view(t)
        for z, rec in v.items():
            want_ions = sorted(base[z][2] + base[z][3])
            if rec["ions"] != want_ions:
                fail("C10:fresh-private-differs:core.ions", "after [%s], %s.%s.ions is %r; element_base in core.py lists %r"
                     % ("; ".join(texts), name, rec["symbol"], rec["ions"], want_ions), history_text=list(texts), table=name, Z=z)
            if rec != pub0[z]:
                k = next(k for k in rec if rec[k] != pub0[z][k])
                fail("C10:fresh-private-differs:core.%s" % k, "after [%s], %s.%s.%s is %r, the public table serves %r"
                     % ("; ".join(texts), name, rec["symbol"], k, rec[k], pub0[z][k]), history_text=list(texts), table=name, Z=z)
        pub = view(pt.elements)
        if pub != pub0:
            z = next(z for z in pub if pub[z] != pub0[z])
            k = next(k for k in pub[z] if pub[z][k] != pub0[z][k])
            fail("C10:public-changed-by-table-creation", "after [%s], elements.%s.%s is %r, before it was %r"
                 % ("; ".join(texts), pub[z]["symbol"], k, pub[z][k], pub0[z][k]), history_text=list(texts), Z=z)
        for other, t2 in tables.items():
            if other != name and view(t2) != v:
                fail("C10:private-changed-by-other-private-init:core", "after [%s], the tables %s and %s serve different core data"
                     % ("; ".join(texts), other, name), history_text=list(texts))
    # every look-up route of a table returns that table's own atom
    for name, t in list(tables.items()) + [("public", pt.elements)]:
        for z in (1, 26, 92, 118):
            el = t[z]
            routes = {"symbol(%r)" % el.symbol: lambda: t.symbol(el.symbol), "name(%r)" % el.name: lambda: t.name(el.name),
                      "isotope(%r)" % el.symbol: lambda: t.isotope(el.symbol), "getattr %s" % el.symbol: lambda: getattr(t, el.symbol)}
            if el.isotopes:
                a = el.isotopes[0]
                routes["isotope('%d-%s')" % (a, el.symbol)] = lambda: t.isotope("%d-%s" % (a, el.symbol)).element
            for rname, fn in routes.items():
                try:
                    got = fn()
                except Exception as e:  # noqa
                    got = e
                if got is not el:
                    fail("C10:route-other-table", "after [%s], %s.%s is %s, not %s[%d] itself"
                         % ("; ".join(texts), name, rname, "an atom of table %r" % getattr(got, "table", "?") if not isinstance(got, Exception)
                            else "%s: %s" % (type(got).__name__, got), name, z), history_text=list(texts), table=name, Z=z)
        for alias in ("D", "T"):
            try:
                got = [t.symbol(alias), t.isotope(alias), getattr(t, alias)]
            except Exception as e:  # noqa
                got = [e]
            if any(g is not t[1][2 if alias == "D" else 3] for g in got):
                fail("C10:route-other-table", "after [%s], the routes to %s of table %s do not all give %s[1][%d]"
                     % ("; ".join(texts), alias, name, name, 2 if alias == "D" else 3), history_text=list(texts), table=name, Z=1)
    for z, rec in pub0.items():
        want_ions = sorted(base[z][2] + base[z][3])
        if rec["ions"] != want_ions:
            fail("C10:public-core.ions", "elements.%s.ions is %r; element_base in core.py lists %r" % (rec["symbol"], rec["ions"], want_ions), Z=z)
    # pickled atoms of T are restored into T: in a process that has no table of that name they are not restored into
    # some other table (a refusal is the only admissible alternative)
    try:
        import pickle, base64, subprocess
        t = tables["q1"]
        blobs = {"q1.Fe": t.Fe, "q1.Fe[56]": t.Fe[56], "q1.Fe.ion[2]": t.Fe.ion[2], "q1.Fe[56].ion[3]": t.Fe[56].ion[3], "q1.D": t.D}
        payload = {k: base64.b64encode(pickle.dumps(v)).decode() for k, v in blobs.items()}
        code = ("import sys, json, pickle, base64, periodictable\n"
                "out = {}\n"
                "for k, b in json.loads(sys.stdin.read()).items():\n"
                "    try:\n"
                "        a = pickle.loads(base64.b64decode(b))\n"
                "        out[k] = 'atom of table %r' % (getattr(a, 'table', None) or a.element.table)\n"
                "    except Exception as e:\n"
                "        out[k] = 'refused'\n"
                "print(json.dumps(out))\n")
        p = subprocess.run([sys.executable, "-c", code], input=json.dumps(payload), stdout=subprocess.PIPE, stderr=subprocess.PIPE, text=True,
                           timeout=300, cwd="/", env=dict(os.environ))
        res = json.loads(p.stdout.strip().split("\n")[-1]) if p.returncode == 0 else {"child": "failed: " + p.stderr[-200:]}
        for k, v in res.items():
            if v not in ("refused", "atom of table 'q1'"):
                fail("C10:pickle-restored-elsewhere:core", "pickle.dumps(%s) loaded in an interpreter that has no table 'q1' gives an %s" % (k, v),
                     history_text=["q1 = PeriodicTable('q1')", "pickle.dumps(%s)" % k, "new interpreter: pickle.loads(..)"], key=k)
                break
    except Exception as e:  # noqa
        fail("C10:pickle-restored-elsewhere:core:raises", "the cross-interpreter pickle probe raised %s: %s" % (type(e).__name__, e))
    # a table name identifies the table (atoms pickle by it): a second table cannot take a name that is in use - or, if it may,
    # atoms of the first still come back as themselves
    try:
        import pickle as _pk, copy as _cp
        t1 = tables["q2"]
        a1 = t1.Fe[56].ion[2]
        t1.Fe._mass = 1000.0
        second = None
        try:
            second = core.PeriodicTable("q2")
        except Exception:  # noqa
            pass
        if second is not None:
            try:
                b1 = _pk.loads(_pk.dumps(a1))
                c1 = _cp.deepcopy(t1.Fe)
            except Exception as e_:  # noqa
                b1, c1 = e_, e_
            if b1 is not a1 or c1 is not t1.Fe:
                fail("C10:pickle-restored-elsewhere:core:duplicate-name", "after a second PeriodicTable('q2') was created, pickle/deepcopy of atoms of the "
                     "first 'q2' give %s" % ("other objects (Fe mass %r instead of 1000.0)" % getattr(c1, "mass", None) if not isinstance(c1, Exception)
                                                 else "%s: %s" % (type(c1).__name__, c1)),
                     history_text=["q2 = PeriodicTable('q2')", "PeriodicTable('q2') again", "pickle round trip of q2.Fe[56].ion[2]"])
            core.PRIVATE_TABLES["q2"] = t1
    except Exception as e:  # noqa
        fail("C10:pickle-restored-elsewhere:core:raises", "the duplicate-name probe raised %s: %s" % (type(e).__name__, e))
    try:
        nlazy = lazy_breadth(fail)
    except Exception as e:  # noqa
        import traceback
        nlazy = 0
        fail("C10:fresh-private-differs:raises", "initialising every property group on a fresh private table and reading it raised %s: %s"
             % (type(e).__name__, e), trace=traceback.format_exc()[-600:])
    try:
        edits = edit_breadth(fail)
    except Exception as e:  # noqa
        import traceback
        edits = {}
        fail("C10:public-changed-by-private-edit:in-place:raises", "editing every container of a private table in place and re-reading the public "
             "table raised %s: %s" % (type(e).__name__, e), trace=traceback.format_exc()[-600:])
    json.dump(dict(direct_fails=fails, stats=dict(tables=len(tables), elements=len(pub0), lazy_values_compared=nlazy, in_place=edits)), sys.stdout)


main()
