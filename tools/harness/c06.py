"""C06 harness: every element and isotope of the public table and of a freshly initialised
private table; mass, uncertainties, abundance, density, number density, interatomic distance.
Also evaluates the property's own statements directly on the implementation against a third,
trivial reading of the table text (the failing-input search of the verdict protocol)."""
import json, sys, re, math
from pyenc import enc, attempt
import periodictable
from periodictable import core, mass, density, constants

EL = ["mass", "_mass_unc", "density", "number_density", "interatomic_distance"]
ISO = ["mass", "_mass_unc", "abundance", "_abundance_unc", "density", "number_density", "interatomic_distance"]


def obs(atom, names):
    return [attempt(getattr, atom, n) for n in names]


def sweep(table):
    cases, meta = [], []
    for el in table:
        cases.append("(%d, 0, [%s])" % (el.number, "; ".join(enc(v) for v in obs(el, EL))))
        meta.append([el.number, 0])
        for iso in el:
            cases.append("(%d, %d, [%s])" % (el.number, iso.isotope, "; ".join(enc(v) for v in obs(iso, ISO))))
            meta.append([el.number, iso.isotope])
    return cases, meta


NUM = re.compile(r"\s*([0-9]*\.?[0-9]+|[0-9]+\.)")


def lead(txt):
    m = NUM.match(txt)
    return float(m.group(1)) if m else None


iunc, wunc = {}, {}


ROW_KEYS = []


def third_reader():
    """(mass of (z,a)), weights of z, composition blocks — read with nothing but split/regex."""
    imass, weight, blocks = {}, {}, []
    iunc.clear(); wunc.clear()
    for line in mass.isotope_mass.split("\n"):
        f = line.split(",")
        z, _, a = f[0].split("-")
        # one row per nuclide, in order of (Z, A): a row out of order is a row filed under another nuclide's key
        if imass and (int(z), int(a)) <= max(imass):
            ROW_KEYS.append("row %r of the isotope mass table is keyed (Z, A) = (%s, %s) after the row of %r: a nuclide has two rows "
                            "or a row is filed under the wrong mass number" % (line[:40], z, a, max(imass)))
        imass[(int(z), int(a))] = lead(f[1])
        iunc[(int(z), int(a))] = lead_unc(f[1])
        if int(z) not in weight:
            weight[int(z)] = lead(f[3]) if f[3] else None
            wunc[int(z)] = lead_unc(f[3]) if f[3] else None
    from periodictable import core as _core
    sym2z = {row[1]: z for z, row in _core.element_base.items()}
    for line in mass.element_mass.split("\n"):
        t = line.split()
        # the row is the row of the element it names: symbol column; a key column that disagrees is a mis-filed row
        if sym2z.get(t[1]) != int(t[0]):
            ROW_KEYS.append("row %r of the atomic-weight table is filed under Z = %s but names %s (Z = %s)" % (line.strip(), t[0], t[1], sym2z.get(t[1])))
            if t[1] in sym2z:
                t = [str(sym2z[t[1]])] + t[1:]
        if t[3] != "-":
            if t[3].startswith("["):
                lo, hi = t[3][1:-1].split(",") if "," in t[3] else (t[3][1:-1], t[3][1:-1])
                weight[int(t[0])] = (float(lo) + float(hi)) / 2
                wunc[int(t[0])] = (float(hi) - float(lo)) / math.sqrt(12)
            else:
                weight[int(t[0])] = lead(t[3])
                wunc[int(t[0])] = lead_unc(t[3])
    for line in mass.isotope_abundance.split("\n"):
        t = line.split()
        # what a row is, is read from its content (an element row names a symbol, an isotope row gives a number and a
        # value); the indentation the loader goes by must agree with it
        by_content = len(t) >= 2 and t[1][:1].isalpha()
        by_indent = line[:1] not in (" ", "\t")
        if by_content != by_indent:
            ROW_KEYS.append("row %r of the composition table reads as an %s row but is %s" % (
                line, "element" if by_content else "isotope", "not indented" if by_indent else "indented"))
        if by_content:
            if sym2z.get(t[1]) != int(t[0]):
                ROW_KEYS.append("row %r of the composition table is filed under Z = %s but names %s" % (line.strip(), t[0], t[1]))
            blocks.append((sym2z.get(t[1], int(t[0])), []))
        else:
            # the cell is read from the rest of the line with the documented notations
            # value(unc) | [nominal] | [low,high] (blanks inside the brackets allowed)
            rest = line.strip()[len(t[0]):].lstrip()
            mr = re.match(r"\[\s*([0-9.]+)\s*,\s*([0-9.]+)\s*\]", rest)
            mn = re.match(r"\[\s*([0-9.]+)\s*\]", rest)
            if mr:
                p = (float(mr.group(1)) + float(mr.group(2))) / 2
            elif mn:
                p = float(mn.group(1))
            else:
                p = lead(rest)
            blocks[-1][1].append((int(t[0]), p))
    return imass, weight, blocks


UNC = re.compile(r"\s*([0-9]*\.?[0-9]*)\(([0-9.]+)\)")


def lead_unc(txt):
    """uncertainty of 'value(unc)' read digit by digit (third reader): the digits of unc are aligned
    with the last digits of value unless unc carries its own decimal point; None when not of that form"""
    m = UNC.match(txt)
    if not m:
        return None
    value, unc = m.group(1), m.group(2)
    if "." in unc or "." not in value:
        return float(unc)
    decimals = len(value.split(".")[1])
    from fractions import Fraction
    return float(Fraction(int(unc), 10 ** decimals))


def rel(a, b, tol=1e-12):
    return abs(a - b) <= tol * max(abs(a), abs(b), 1e-300)


def direct(tname, table):
    """Property statements evaluated on the implementation.  Returns failing inputs."""
    imass, weight, blocks = third_reader()
    fails = []

    def fail(sig, what, **kw):
        fails.append(dict(signature=sig, what=what, table=tname, **kw))
    for msg in sorted(set(ROW_KEYS)):
        fail("C06:row-key-mismatch", msg)
    listed = {}
    for z, rows in blocks:
        tot = sum(p for _, p in rows)
        for a, p in rows:
            listed[(z, a)] = 100 * p / tot
    for el in table:
        z = el.number
        if z in weight and weight[z] is not None and z != 0:
            if not (isinstance(el.mass, float) and rel(el.mass, weight[z])):
                fail("C06:weight:Z=%d" % z, "atomic weight of %s is %r, the table says %r" % (el.symbol, el.mass, weight[z]),
                     atom=el.symbol, observed=el.mass, expected=weight[z])
        if z != 0 and wunc.get(z) is not None:
            u = attempt(getattr, el, "_mass_unc")
            if not (isinstance(u, (int, float)) and rel(float(u), wunc[z], 1e-12)):
                fail("C06:weight-unc:Z=%d" % z, "uncertainty of the atomic weight of %s is %r, the table says %r" % (el.symbol, u, wunc[z]),
                     atom=el.symbol, observed=repr(u), expected=wunc[z])
        absum = 0.0
        for iso in el:
            a = iso.isotope
            if (z, a) in imass and not (isinstance(iso.mass, float) and rel(iso.mass, imass[(z, a)])):
                fail("C06:mass:%d-%d" % (z, a), "mass of %r is %r, the table says %r" % (iso, iso.mass, imass[(z, a)]),
                     atom=repr(iso), observed=iso.mass, expected=imass[(z, a)])
            if iunc.get((z, a)) is not None:
                u = attempt(getattr, iso, "_mass_unc")
                if not (isinstance(u, (int, float)) and rel(float(u), iunc[(z, a)], 1e-12)):
                    fail("C06:mass-unc:%d-%d" % (z, a), "mass uncertainty of %r is %r, the table says %r" % (iso, u, iunc[(z, a)]),
                         atom=repr(iso), observed=repr(u), expected=iunc[(z, a)])
            ab = attempt(getattr, iso, "abundance")
            exp_ab = listed.get((z, a), 100.0 if z == 0 else 0.0)
            if isinstance(ab, Exception) or not rel(float(ab), exp_ab, 1e-11):
                fail("C06:abundance:Z=%d" % z,
                     "abundance of %r is %r, the composition table gives %r" % (iso, ab, exp_ab),
                     atom=repr(iso), observed=repr(ab), expected=exp_ab)
            else:
                absum += ab
            # isotope density: element density scaled by the mass ratio, unknown when unknown
            rho_el = attempt(getattr, el, "density")
            rho = attempt(getattr, iso, "density")
            if isinstance(rho, Exception):
                if rho_el is None:
                    fail("C06:isotope-density-raises-when-element-density-unknown",
                         "%r.density raises %s although the element density is merely unknown" % (iso, type(rho).__name__),
                         atom=repr(iso), observed=type(rho).__name__, expected=None)
                else:
                    fail("C06:density:%d-%d" % (z, a), "%r.density raises %s" % (iso, type(rho).__name__),
                         atom=repr(iso), observed=type(rho).__name__)
            elif rho_el is None:
                if rho is not None:
                    fail("C06:density:%d-%d" % (z, a), "%r.density is %r but the element density is unknown" % (iso, rho),
                         atom=repr(iso), observed=rho, expected=None)
            elif not (isinstance(rho_el, (int, float)) and rho is not None and rel(rho, rho_el * iso.mass / el.mass)):
                fail("C06:density:%d-%d" % (z, a), "%r.density is %r, expected element density x mass ratio" % (iso, rho),
                     atom=repr(iso), observed=rho, expected=repr(rho_el))
        # an isotope's number density and interatomic distance are those of its element
        for iso in el:
            for k in ("number_density", "interatomic_distance"):
                vi, ve = attempt(getattr, iso, k), attempt(getattr, el, k)
                if isinstance(vi, Exception) or (vi is None) != (ve is None) or (vi is not None and not rel(vi, ve, 1e-14)):
                    fail("C06:isotope-%s" % k, "%r.%s is %r, the element's is %r (n = rho*N_A/m with the isotope's own density and mass)" % (iso, k, vi, ve),
                         atom=repr(iso), observed=repr(vi), expected=repr(ve))
                    break
        if any(zz == z for zz, _ in blocks) and not abs(absum - 100) < 1e-9:
            fail("C06:abundance:Z=%d" % z, "abundances of %s sum to %r, not 100" % (el.symbol, absum),
                 atom=el.symbol, observed=absum, expected=100.0)
        # n = rho*N_A/m and n*d^3 = 1e24
        rho, n, d = (attempt(getattr, el, k) for k in ("density", "number_density", "interatomic_distance"))
        if isinstance(rho, float) and isinstance(el.mass, float):
            if not (isinstance(n, float) and rel(n, rho * constants.avogadro_number / el.mass)):
                fail("C06:number_density:Z=%d" % z, "number density of %s is %r" % (el.symbol, n), atom=el.symbol, observed=repr(n))
            elif not (isinstance(d, float) and rel(n * d ** 3, 1e24, 1e-11)):
                fail("C06:interatomic_distance:Z=%d" % z, "n*d^3 of %s is %r, not 1e24" % (el.symbol, n * d ** 3 if isinstance(d, float) else d),
                     atom=el.symbol, observed=repr(d))
    return fails


def main():
    c1, m1 = sweep(periodictable.elements)
    priv = core.PeriodicTable("verif_c06")
    mass.init(priv)
    density.init(priv)
    c2, m2 = sweep(priv)
    fails = direct("public", periodictable.elements) + direct("private", priv)
    # a private table is filled from the embedded tables, whatever was done to the public table before it was created
    try:
        pub = periodictable.elements
        pub.Li[6]._abundance, pub.Li[7]._abundance = 95.0, 5.0
        pub.B._mass = 10.2
        pub.Fe[57]._mass = 56.9
        pub.Si._density = 2.0
        late = core.PeriodicTable("verif_c06_late")
        mass.init(late)
        density.init(late)
        for f in direct("private table created after edits of the public table", late):
            f["signature"] = f["signature"].replace("C06:", "C06:after-public-edit:", 1)
            f["what"] = ("after elements.Li[6]._abundance = 95, elements.B._mass = 10.2, elements.Fe[57]._mass = 56.9, "
                         "elements.Si._density = 2.0 and then T = PeriodicTable(..); mass.init(T); density.init(T): " + f["what"])
            fails.append(f)
    except Exception as e:  # noqa
        fails.append(dict(signature="C06:after-public-edit:raises", what="creating a private table after editing the public one raised %s: %s"
                          % (type(e).__name__, e), table="late"))
    out = dict(cases=c1 + c2, meta=[["public"] + m for m in m1] + [["private"] + m for m in m2],
               direct_fails=fails, n_public=len(c1), n_private=len(c2))
    json.dump(out, sys.stdout)


main()
