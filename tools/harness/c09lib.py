"""Shared by the C09 and C10 harnesses: running histories in fresh interpreters (c09child.py), the canonical
order, classification of observed outcomes into the vocabulary of Model/Attr.v (OSame/ODiff/OUser/OErr/...),
Coq encodings, minimisation of failing histories."""
import json, os, subprocess, sys
from concurrent.futures import ThreadPoolExecutor

HERE = os.path.dirname(os.path.abspath(__file__))
CHILD = os.path.join(HERE, "c09child.py")
JOBS = min(12, int(os.environ.get("VERIF_JOBS", "12")))

TABLES = {"pub": "Pub", "p1": "P1", "p2": "P2"}
ATOMS = ["En", "E1", "E0", "I11", "I01", "I00", "XE1", "XE0", "XI11", "XI01"]
GROUPS = {
    "covalent_radius": ["covalent_radius", "covalent_radius_units", "covalent_radius_uncertainty"],
    "crystal_structure": ["crystal_structure"],
    "neutron": ["neutron"],
    "neutron_activation": ["neutron_activation"],
    "xray": ["xray"],
    "emission": ["K_alpha", "K_beta1", "K_alpha_units", "K_beta1_units"],
    "magnetic_ff": ["magnetic_ff"],
    "base": ["mass", "density"],
}
GROUP_OF = {n: g for g, ns in GROUPS.items() for n in ns}
GROUP_OF.update({"_mass": "base", "_density": "base"})    # per-atom data behind the computed mass / density
SET_NAMES = {g: (ns if g != "base" else ["_mass", "_density"]) for g, ns in GROUPS.items()}
LAZY_NAMES = [n for g, ns in GROUPS.items() if g != "base" for n in ns]
KEYS = {
    "mass.init": "base", "density.init": "base", "nsf.init": "neutron", "xsf.init": "xray",
    "xsf.init_spectral_lines": "emission", "covalent_radius.init": "covalent_radius",
    "crystal_structure.init": "crystal_structure", "magnetic_ff.init": "magnetic_ff",
    "activation.init": "neutron_activation",
}
KEY_OF_GROUP = {g: k for k, g in KEYS.items() if g != "base"}
MODULES = ["activation", "chemicals", "constants", "core", "covalent_radius", "cromermann", "crystal_structure",
           "density", "fasta", "formulas", "magnetic_ff", "mass", "nsf", "nsf_tables", "util", "xsf"]
CALCS = {"neutron_sld": "CNeutronSld", "neutron_sld_iso": "CNeutronSldIso", "xray_sld": "CXraySld",
         "xray_sld_ion": "CXraySldIon", "magnetic_j0": "CMagneticJ0", "activation": "CActivation", "water": "CWater"}
CALC_GROUPS = {"neutron_sld": ["neutron"], "neutron_sld_iso": ["neutron"], "xray_sld": ["xray"],
               "xray_sld_ion": ["xray"], "magnetic_j0": ["magnetic_ff"], "activation": ["neutron_activation"],
               "water": ["neutron", "xray"]}
# which representative atoms the loaders write (Model/Attr.v `covers`); checked against the implementation
COVERED = {("E1", n) for n in ["neutron", "K_alpha", "K_beta1", "covalent_radius", "covalent_radius_uncertainty",
                               "crystal_structure", "magnetic_ff"]} \
    | {("I11", "neutron"), ("I11", "neutron_activation"), ("En", "covalent_radius")}
PRIV_PREFIX = lambda T: [["new", T], ["init", "density.init", T]]     # "new" = PeriodicTable(T); mass.init(T)


def child_env():
    env = dict(os.environ)
    env.setdefault("PYTHONHASHSEED", "0")
    env["PYTHONDONTWRITEBYTECODE"] = "1"
    for k in ("OMP_NUM_THREADS", "OPENBLAS_NUM_THREADS", "MKL_NUM_THREADS"):
        env[k] = "1"
    return env


def run_child(events, state=False):
    job = json.dumps(dict(events=events, state=state))
    p = subprocess.run([sys.executable, CHILD, job], env=child_env(), stdout=subprocess.PIPE, stderr=subprocess.PIPE,
                       text=True, timeout=300, cwd="/")
    line = [l for l in p.stdout.splitlines() if l.startswith("{")]
    if p.returncode != 0 or not line:
        raise RuntimeError("child failed (rc=%s) on %s: %s" % (p.returncode, events[:6], p.stderr[-800:]))
    return json.loads(line[-1])


def run_children(histories):
    with ThreadPoolExecutor(max_workers=JOBS) as ex:
        return list(ex.map(run_child, histories))


# ------------------------------------------------------------------ canonical order

def canonical():
    """Plain reads on the public table of a fresh interpreter, every name through every representative atom,
    then every calculator.  Returns dict(read[(atom,name)] -> ('val', digest) | ('err', kind), calc[c] -> digest)."""
    reads = [["read", "pub", a, n] for n in LAZY_NAMES + GROUPS["base"] for a in ATOMS if a != "En" or GROUP_OF[n] == "covalent_radius"]
    calcs = [["calc", c, "pub"] for c in CALCS]
    indict = [["indict", "pub", a, n] for n in LAZY_NAMES for a in ATOMS if a != "En" or GROUP_OF[n] == "covalent_radius"]
    res = run_child(reads + calcs + indict)["out"]
    can = dict(read={}, calc={}, cover_mismatch=[])
    for ev, o in zip(indict, res[len(reads) + len(calcs):]):
        if bool(o.get("b")) != ((ev[2], ev[3]) in COVERED):
            can["cover_mismatch"].append("%s.%s in __dict__ is %s" % (ev[2], ev[3], o.get("b")))
    for ev, o in zip(reads + calcs, res):
        if ev[0] == "read":
            can["read"][(ev[2], ev[3])] = ("val", o["d"]) if o["k"] == "val" else ("err", o.get("e", o["k"]))
            if o["k"] == "val" and o["marks"]:
                raise RuntimeError("marks in the canonical run")
        else:
            if o["k"] != "val":
                raise RuntimeError("calculator %s fails in the canonical order: %s" % (ev[1], o))
            can["calc"][ev[1]] = o["d"]
    return can


# ------------------------------------------------------------------ classification, encodings

def classify(ev, o, can):
    """observed outcome -> Coq term of type Attr.outcome"""
    k = ev[0]
    if o["k"] == "err":
        e = o["e"]
        if k == "read":
            c = can["read"].get((ev[2], ev[3]))
            if c == ("err", e):
                return "OSame"
        return "(OErr %s)" % e
    if k == "read":
        T = ev[1]
        if o["k"] == "user":
            return "OUser" if o["t"] == T else "ODiff"
        c = can["read"].get((ev[2], ev[3]))
        if c != ("val", o["d"]):
            return "ODiff"
        if not o["marks"]:
            return "OSame"
        return "OUser" if set(o["marks"]) <= {T} else "ODiff"
    if k == "calc":
        if o["k"] != "val":
            return "ODiff"
        return "OSame" if can["calc"][ev[1]] == o["d"] else "ODiff"
    if k in ("has", "parse", "pickle"):
        return "(OBool %s)" % ("true" if o["b"] else "false")
    if k == "mut":
        return "OOk" if o["k"] == "ok" else "OImm"
    return "OOk"


def coq_event(ev):
    k = ev[0]
    q = lambda s: '"%s"' % s
    if k == "read":
        return "Read %s %s %s" % (TABLES[ev[1]], ev[2], q(ev[3]))
    if k == "has":
        return "Has %s %s %s" % (TABLES[ev[1]], ev[2], q(ev[3]))
    if k == "set":
        return "SetA %s %s %s" % (TABLES[ev[1]], ev[2], q(ev[3]))
    if k == "mut":
        return "Mut %s %s %s" % (TABLES[ev[1]], ev[2], q(ev[3]))
    if k == "import":
        return "Import %s" % q(ev[1])
    if k == "calc":
        return "Calc %s %s" % (CALCS[ev[1]], TABLES[ev[2]])
    if k == "init":
        return "Init %s %s" % (q(ev[1]), TABLES[ev[2]])
    if k == "new":
        return "New %s" % TABLES[ev[1]]
    if k == "parse":
        return "Parse %s" % TABLES[ev[1]]
    if k == "pickle":
        return "Pickle %s %s" % (TABLES[ev[1]], ev[2])
    raise ValueError(ev)


PY_ATOM = {"En": "{t}[0]", "E1": "{t}.Fe", "E0": "{t}.Rf", "I11": "{t}.Fe[58]", "I01": "{t}.Fe[45]", "I00": "{t}.Rf[261]",
           "XE1": "{t}.Fe.ion[2]", "XE0": "{t}.Rf.ion[4]", "XI11": "{t}.Fe[58].ion[2]", "XI01": "{t}.Fe[45].ion[2]"}
PY_TABLE = {"pub": "elements", "p1": "p1", "p2": "p2"}


def text_event(ev):
    """the event as the Python statement it stands for"""
    k = ev[0]
    if k in ("read", "has", "set", "mut"):
        a = PY_ATOM[ev[2]].format(t=PY_TABLE[ev[1]])
        return {"read": "%s.%s", "has": "hasattr(%s, '%s')", "set": "%s.%s = <value>",
                "mut": "mutate(%s.%s)"}[k] % (a, ev[3])
    if k == "import":
        return "import periodictable.%s" % ev[1]
    if k == "calc":
        return "%s(table=%s)" % (ev[1], PY_TABLE[ev[2]])
    if k == "init":
        return "%s(%s)" % (ev[1], PY_TABLE[ev[2]])
    if k == "new":
        return "%s = PeriodicTable('%s'); mass.init(%s)" % (ev[1], ev[1], ev[1])
    if k == "parse":
        return ("all atoms of the formulas built from strings with table=%s (plain, isotope/ion, wt%%, vol%%, mass/volume, layer "
                "and biomolecule strings, mix_by_weight, mix_by_volume) are atoms of %s" % (PY_TABLE[ev[1]], PY_TABLE[ev[1]]))
    if k == "pickle":
        return "pickle round trip of %s" % PY_ATOM[ev[2]].format(t=PY_TABLE[ev[1]])
    return str(ev)


def coq_case(events, outcomes):
    return "([%s], [%s])" % ("; ".join(coq_event(e) for e in events), "; ".join(outcomes))


def event_groups(ev):
    k = ev[0]
    if k in ("read", "has", "set", "mut"):
        return [GROUP_OF[ev[3]]]
    if k == "calc":
        return CALC_GROUPS[ev[1]]
    if k == "init":
        return [KEYS[ev[1]]]
    if k == "import":
        return ["neutron"] if ev[1] == "fasta" else []
    return []


def closing_reads(tables=("pub",), atoms=("E1", "E0", "I11")):
    """the fixed panel observed after the last event: every lazy name through three atoms, then computed values"""
    out = []
    for T in tables:
        for n in LAZY_NAMES:
            for a in atoms:
                out.append(["read", T, a, n])
    out += [["calc", "water", "pub"], ["calc", "magnetic_j0", "pub"], ["calc", "xray_sld", "pub"],
            ["calc", "xray_sld_ion", "pub"]]
    return out


# ------------------------------------------------------------------ minimisation of a failing history

def well_formed(cand):
    """a table must exist before it is used"""
    made = {"pub"}
    for e in cand:
        if e[0] == "new":
            made.add(e[1])
        else:
            T = e[1] if e[0] in ("read", "has", "set", "mut", "parse", "pickle") else (e[2] if e[0] in ("calc", "init") else "pub")
            if T not in made:
                return False
    return True


def minimise(events, fails_many):
    """events[-1] is the failing observation; `fails_many(list of histories) -> list of bool` re-runs candidates
    (in parallel).  Removal of single events to a 1-minimal history that still fails the same way at its last
    event."""
    cur = list(events)
    while True:
        idx = [i for i in range(len(cur) - 1) if well_formed(cur[:i] + cur[i + 1:])]
        if not idx:
            return cur
        res = fails_many([cur[:i] + cur[i + 1:] for i in idx])
        removable = [i for i, r in zip(idx, res) if r]
        if not removable:
            return cur
        # drop every individually removable event at once when that still fails; else one at a time
        allgone = [e for j, e in enumerate(cur) if j not in removable]
        if len(removable) > 1 and well_formed(allgone) and fails_many([allgone])[0]:
            cur = allgone
        else:
            i = removable[0]
            cur = cur[:i] + cur[i + 1:]


# ------------------------------------------------------------------ the property, evaluated on observed outcomes

def canonical_has(can, a, n):
    c = can["read"].get((a, n))
    return "(OBool %s)" % ("true" if c and c[0] == "val" else "false")


def c09_ok(ev, oc, can):
    """C09 on one observation of the public table"""
    k = ev[0]
    if k == "read" and ev[1] == "pub":
        return oc == "OSame"
    if k == "has" and ev[1] == "pub":
        return oc == canonical_has(can, ev[2], ev[3])
    if k == "calc" and ev[2] == "pub":
        return oc == "OSame"
    if k == "import" or (k == "init" and ev[2] == "pub"):
        return oc == "OOk"
    return True


def c09_violations(h, oc, can):
    return [(i, "pub") for i, (e, o) in enumerate(zip(h, oc)) if not c09_ok(e, o, can)]


def c10_violations(h, oc, can):
    """indices of observations that contradict C10, with the table observed:
    (a) every observation of the public table is canonical; (b) every read of a private table X, for a group X
    was initialised with (init returned normally) and X has not itself assigned to / mutated, is canonical;
    (c) parse / pickle stay inside the table"""
    out = []
    inited, touched = set(), set()      # (table, group)
    for i, (e, o) in enumerate(zip(h, oc)):
        k = e[0]
        if k == "init" and e[2] != "pub" and o == "OOk":
            inited.add((e[2], KEYS[e[1]]))
        if k in ("set", "mut") and o == "OOk":
            touched.add((e[1], GROUP_OF[e[3]]))
        X = e[1] if k in ("read", "has") else (e[2] if k == "calc" else "pub")
        if k == "read":
            grp = GROUP_OF[e[3]]
            claimed = X == "pub" or ((X, grp) in inited and (X, grp) not in touched)
            if grp == "base" and X != "pub":
                # mass.init ran when the table was created; density needs density.init as well
                claimed = (e[3] == "mass" or any(h[j][0] == "init" and h[j][2] == X and h[j][1] == "density.init"
                                                 and oc[j] == "OOk" for j in range(i))) and (X, "base") not in touched
            if claimed and o != "OSame":
                out.append((i, X))
        elif k == "has" and X == "pub":
            if o != canonical_has(can, e[2], e[3]):
                out.append((i, X))
        elif k == "calc" and X == "pub":
            if o != "OSame":
                out.append((i, X))
        elif k == "import":
            if o != "OOk":
                out.append((i, "pub"))
        elif k in ("parse", "pickle"):
            if o != "(OBool true)":
                out.append((i, e[1]))
    return out


def observe(h, can):
    r = run_child(h)["out"]
    return [classify(e, o, can) for e, o in zip(h, r)]


def foreign_mark_places(h, table):
    """where, in the value served by the last event of h, the marks of tables other than `table` sit
    ("" = the served object itself, "sftable" = the array behind Xray.sftable, ...)"""
    o = run_child(h)["out"][-1]
    places = set()
    for t, ps in (o.get("where") or {}).items():
        if t != table:
            places.update(ps)
    return sorted(places)


WORDS = {"OSame": "the canonical value", "ODiff": "a different value (missing-data placeholder or foreign data)",
         "OUser": "the table's own modification", "OOk": "no exception", "OImm": "an immutable value",
         "(OBool true)": "True", "(OBool false)": "False"}


def words(oc):
    if oc.startswith("(OErr "):
        return "raises " + {"AttrErr": "AttributeError", "TypeErr": "TypeError", "AssertErr": "AssertionError",
                            "KeyErr": "KeyError", "RecursionErr": "RecursionError", "ValueErr": "ValueError"}.get(oc[6:-1], oc[6:-1])
    return "gives " + WORDS.get(oc, oc)


def prefer_read(m, table, violates_last):
    """the same failure shown by a plain attribute read, when there is one (m[-1] is the failing observation)"""
    if m[-1][0] == "read":
        return m
    grp = event_groups(m[-1])
    cands = [m[:-1] + [["read", table, a, n]] for g in grp for n in GROUPS[g] for a in ("E1", "I11")]
    res = violates_last(cands)
    for c, r in zip(cands, res):
        if r:
            return c
    return m
