"""Random derivation trees of the documented compound grammar: generation, rendering, Coq terms.
Call init(rng, table) first."""
from pyenc import cstr

rng = None
PUB = None
ELEMENTS = []


def init(r, table):
    global rng, PUB, ELEMENTS
    rng, PUB = r, table
    ELEMENTS = [el for el in PUB if el.number >= 1]


INT_COUNTS = ["2", "3", "4", "6", "10", "12", "25", "100"]
DEC_COUNTS = ["0.5", ".5", "1.5", "2.75", "12.50", "1.", "3.", "0.125", "7.0625", ".25", "1.4214", "0.1", "32.4395"]


def ocstr(s):
    return "None" if s is None else "(Some %s)" % cstr(s)


def gen_count(p=0.5):
    if rng.random() > p:
        return None
    return rng.choice(INT_COUNTS) if rng.random() < 0.6 else rng.choice(DEC_COUNTS)


def gen_elem():
    r = rng.random()
    if r < 0.08:
        sym, el, base = rng.choice([("D", PUB.H, PUB.D), ("T", PUB.H, PUB.T)])
        iso = None
    else:
        el = rng.choice(ELEMENTS) if rng.random() < 0.7 else PUB[rng.choice([1, 6, 7, 8, 11, 17, 20, 26, 14, 15, 29, 92])]
        sym, base = el.symbol, el
        iso = None
        if rng.random() < 0.25 and el.isotopes:
            iso = str(rng.choice(el.isotopes))
    ion = None
    if rng.random() < 0.25 and el.ions:
        q = rng.choice(el.ions)
        digits = "" if (abs(q) == 1 and rng.random() < 0.5) else str(abs(q))
        ion = (digits, q < 0)
    return dict(sym=sym, iso=iso, ion=ion, cnt=gen_count(0.55))


def gen_sep(force_nonempty):
    if force_nonempty:
        return rng.choice([(" ", False, ""), ("", True, ""), (" ", True, " "), ("  ", False, ""), ("\t", False, ""), ("", True, " ")])
    return rng.choice([("", False, ""), (" ", False, ""), ("", True, ""), (" ", True, " "), ("", False, "")])


def gen_group(depth):
    if depth > 0 and rng.random() < 0.45:
        inner = gen_comp(depth - 1)
        return dict(kind="exp", lsp=rng.choice(["", "", "", " "]), inner=inner, rsp=rng.choice(["", "", "", " "]),
                    cnt=gen_count(0.7))
    return dict(kind="imp", cnt=gen_count(0.3), es=[gen_elem() for _ in range(rng.randint(1, 4))])


def gen_comp(depth):
    n = rng.randint(1, 3)
    out = []
    for i in range(n):
        g = gen_group(depth)
        # unambiguous under the documented grammar: a group that begins with a count, and an
        # implicit group that follows an implicit group, are preceded by a non-empty separator
        lead = g["kind"] == "imp" and (g["cnt"] is not None or (out and out[-1][1]["kind"] == "imp"))
        sep = ("", False, "") if i == 0 else gen_sep(lead)
        out.append((sep, g))
    return out


def r_elem(e):
    s = e["sym"]
    if e["iso"] is not None:
        s += "[" + e["iso"] + "]"
    if e["ion"] is not None:
        s += "{" + e["ion"][0] + ("-" if e["ion"][1] else "+") + "}"
    return s + (e["cnt"] or "")


def r_group(g):
    if g["kind"] == "imp":
        return (g["cnt"] or "") + "".join(r_elem(e) for e in g["es"])
    return "(" + g["lsp"] + r_comp(g["inner"]) + g["rsp"] + ")" + (g["cnt"] or "")


def r_comp(c):
    out = ""
    for i, (sep, g) in enumerate(c):
        if i:
            out += sep[0] + ("+" if sep[1] else "") + sep[2]
        out += r_group(g)
    return out


def c_elem(e):
    ion = "None" if e["ion"] is None else "(Some (%s, %s))" % (cstr(e["ion"][0]), "true" if e["ion"][1] else "false")
    return "(mkElem %s %s %s %s)" % (cstr(e["sym"]), ocstr(e["iso"]), ion, ocstr(e["cnt"]))


def c_sep(s):
    return "(mkSep %s %s %s)" % (cstr(s[0]), "true" if s[1] else "false", cstr(s[2]))


def c_group(g):
    if g["kind"] == "imp":
        return "(GImp %s [%s])" % (ocstr(g["cnt"]), "; ".join(c_elem(e) for e in g["es"]))
    return "(GExp %s %s %s %s)" % (cstr(g["lsp"]), c_comp(g["inner"]), cstr(g["rsp"]), ocstr(g["cnt"]))


def c_comp(c):
    return "[" + "; ".join("(%s, %s)" % (c_sep(s), c_group(g)) for s, g in c) + "]"


def gen_tree(depth):
    comp = gen_comp(depth)
    dens = None
    if rng.random() < 0.4:
        dens = (rng.choice(["", "", " "]), rng.choice(["1", "2.16", "0.5", "1.112", "7.874", ".9", "19.3", "2."]),
                rng.choice([None, None, "n", "i"]))
    return comp, dens


def render(tree):
    comp, dens = tree
    s = r_comp(comp)
    if dens:
        s += dens[0] + "@" + dens[1] + (dens[2] or "")
    return s


def c_tree(tree):
    comp, dens = tree
    d = "None" if dens is None else "(Some (%s, %s, %s))" % (cstr(dens[0]), cstr(dens[1]),
                                                          "None" if dens[2] is None else '(Some "%s"%%char)' % dens[2])
    return "(mkC %s %s)" % (c_comp(comp), d)


