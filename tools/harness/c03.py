"""C03 harness: neutron SLD / cross sections / penetration of compounds over all atoms with neutron
data (every one appears), ions, mixtures of energy-dependent and ordinary atoms, density= and
natural_density=, wavelengths in [0.05, 50] incl. table nodes and both clamped ends, energy=,
scalar/vector, atom.neutron.scattering()/sld(), the None path.

Prints one JSON document: cases (Coq terms of C03Check.c03case), meta, direct_fails (the property's
statements evaluated on the implementation alone: the documented equations recomputed from the
implementation's own tabulated fields; direct atom query vs one-atom compound; None for missing data)."""
import json, sys, random, math
import numpy as np
from c03lib import *

seed, nrandom, tier = int(sys.argv[1]), int(sys.argv[2]), sys.argv[3]
rng = random.Random(seed)
pool = NPool(rng)
cases, meta, fails = [], [], []
stats = dict(atoms_swept=0, table_nodes=0, random=0, none_path=0, vector=0, energy=0, natural_density=0,
             ions=0, sld_calls=0, direct_atom=0, clamped=0, on_node=0, bc_without_density=0)
seen_atoms = set()


def fail(sig, what, **kw):
    fails.append(dict(signature=sig, what=what, **kw))


def describe(call, seq, density, natural_density, wkind, vector, wvals):
    fn = ["neutron_scattering", "neutron_sld", "atom.neutron.scattering", "atom.neutron.sld"][call]
    w = "" if not wkind else ", %s=%r" % ("wavelength" if wkind == 1 else "energy",
                                          list(map(float, wvals)) if vector else float(wvals[0]))
    if call >= 2:
        return "%r.neutron.%s(%s)" % (seq[0][1], "scattering" if call == 2 else "sld", w[2:])
    return "%s(%r, density=%r, natural_density=%r%s)" % (fn, seq, density, natural_density, w)


def natural_ratio(atoms):
    num = den = 0.0
    for a, n in atoms.items():
        b = base_of(a)
        el = b.element if core.isisotope(b) else b
        num += n * (el.mass - constants.electron_mass * getattr(a, "charge", 0))
        den += n * a.mass
    return num / den


def check_doc(call, seq, density, natural_density, wkind, vector, wvals, res, txt):
    """the property's first and third sentences on this call"""
    atoms = count_struct(seq)
    bases = [base_of(a) for a in atoms]
    if any(b.neutron.b_c is None for b in bases):
        want = None if call == 1 else (None, None, None)
        if res != want:
            fail("C03:missing-data-not-none", "%s returned %r although an atom has no neutron data" % (txt, res), call=txt)
        return
    if isinstance(res, BaseException):
        fail("C03:raises", "%s raised %s" % (txt, type(res).__name__), call=txt)
        return
    if res is None or (isinstance(res, tuple) and len(res) == 3 and res[0] is None):
        who = [str(b) for b in bases if not b.neutron.has_sld()]
        fail("C03:none-although-scattering-length-tabulated",
             "%s returned None although every atom has a tabulated scattering length and cross sections "
             "(%s: the element density is unknown, which the calculation at a given density does not need)"
             % (txt, ", ".join(who)), call=txt, atoms=who)
        return
    if density is None and natural_density is None:
        rho = list(atoms)[0].density
    elif natural_density is not None:
        rho = natural_density / natural_ratio(atoms)
    else:
        rho = density
    lams = [ABSW] if not wkind else [float(x) if wkind == 1 else math.sqrt(EF_DOC / float(x)) for x in wvals]
    flat = flatten_result(res, vector, len(lams))
    if flat is None:
        fail("C03:shape", "%s: result is not shaped like the wavelength argument: %r" % (txt, res), call=txt)
        return
    for i, lam in enumerate(lams):
        vals, scales = doc_equations(atoms, rho, lam)
        obs = [f[i] for f in flat]
        bad = compare_doc(obs, vals, scales)
        for j in bad:
            fail("C03:doc-equations:" + NAMES[j],
                 "%s: %s = %r at wavelength %r, the documented equations give %r" % (txt, NAMES[j], obs[j], lam, vals[j]),
                 call=txt, output=NAMES[j], observed=obs[j], expected=vals[j], wavelength=lam)


ABSW = 1.798


def add(call, seq, density=None, natural_density=None, wkind=0, vector=False, wvals=(), as_list=False, tag="", doc=True):
    res = run_call(call, seq, density, natural_density, wkind, vector, wvals, as_list)
    txt = describe(call, seq, density, natural_density, wkind, vector, wvals)
    cases.append(call_term(call, seq, density, natural_density, wkind, vector, wvals, res))
    meta.append(dict(call=txt, tag=tag))
    if doc and call in (0, 1):
        check_doc(call, seq, density, natural_density, wkind, vector, wvals, res, txt)
    for a in flat_atoms(seq):
        seen_atoms.add(atom_key(base_of(a)))
        if core.ision(a):
            stats["ions"] += 1
    if vector:
        stats["vector"] += 1
    if wkind == 2:
        stats["energy"] += 1
    if natural_density is not None:
        stats["natural_density"] += 1
    if call in (1, 3):
        stats["sld_calls"] += 1
    return res


def same(r1, r2, tol=1e-12):
    f1, f2 = flatten_result(r1, False, 1), flatten_result(r2, False, 1)
    if f1 is None or f2 is None or len(f1) != len(f2):
        return ["shape"]
    bad = []
    for j, (a, b) in enumerate(zip(f1, f2)):
        a, b = a[0], b[0]
        if j == 2:
            ok = abs(a * a - b * b) <= 1e-9 * max(a * a, b * b, 1e-300) or abs(a - b) <= 1e-7 * max(abs(r1[0][0]) if isinstance(r1[0], tuple) else abs(r1[0]), 1e-300)
        else:
            ok = abs(a - b) <= 1e-11 * max(abs(a), abs(b), 1e-300)
        if not ok:
            bad.append(NAMES[j])
    return bad


def nothing(r):
    return r is None or (isinstance(r, tuple) and len(r) > 0 and r[0] is None)


# ---------------------------------------------------------------- A. every atom with data
thorough = tier == "thorough"
for a in pool.with_sld:
    reps = 3 if thorough else 1
    for _ in range(reps):
        w = pool.wavelength([a])
        seq = ((1, a),)
        r0 = add(0, seq, wkind=1, wvals=[w], tag="atom-sweep")
        r2 = add(2, seq, wkind=1, wvals=[w], tag="atom-sweep-direct")
        stats["direct_atom"] += 1
        if isinstance(r0, tuple) and isinstance(r2, tuple) and r0[0] is not None and r2[0] is not None:
            bad = same(r0, r2)
            if bad:
                fail("C03:atom-vs-one-atom-compound",
                     "%r.neutron.scattering(wavelength=%r) differs from neutron_scattering of the one-atom compound at "
                     "the atom's density in %s" % (a, w, ", ".join(bad)), atom=repr(a), wavelength=w, outputs=bad)
        elif nothing(r0) != nothing(r2) or isinstance(r0, BaseException) or isinstance(r2, BaseException):
            fail("C03:atom-vs-one-atom-compound", "%r: direct query %r, one-atom compound %r" % (a, r2, r0), atom=repr(a))
    stats["atoms_swept"] += 1
    if thorough or rng.random() < 0.15:
        add(3, ((1, a),), wkind=rng.choice([0, 1]), wvals=[pool.wavelength([a])], tag="atom-sld")
        add(1, ((1, a),), wkind=rng.choice([0, 1, 2]), wvals=[pool.wavelength([a])], tag="atom-compound-sld")

# ---------------------------------------------------------------- A'. table atoms: nodes, clamps, interior
for a in pool.tab:
    nodes = node_wavelengths(a)
    picks = list(nodes) if thorough else rng.sample(nodes, 4)
    for w in picks:
        add(0, ((1, a),), wkind=1, wvals=[w], tag="node")
        stats["on_node"] += 1
        stats["table_nodes"] += 1
    for w in [0.05, 50.0, nodes[0], nodes[-1]] + ([nodes[0] * (1 - 1e-12), nodes[-1] * (1 + 1e-12)] if thorough else []):
        add(0, ((1, a),), wkind=1, wvals=[w], tag="clamp")
        stats["clamped"] += 1
    # the same through energy=: the tabulated energies themselves (meV)
    src = doc_table(a) or doc_table(a[176] if core.iselement(a) and a.symbol == "Lu" else a)
    es = [EF_DOC / (x * x) for x in src[0]]
    for e in (es if thorough else rng.sample(es, 2)):
        add(0, ((1, a),), wkind=2, wvals=[e], tag="node-energy")
    add(2, ((1, a),), wkind=1, vector=True, wvals=[0.05, nodes[0], rng.choice(nodes), 50.0], tag="direct-vector")

# ---------------------------------------------------------------- A''. the tables against their own third column
# every row of the Lynn & Seeger tables gives Re(a), Im(a) and |a| to two decimals; the library reads the first two,
# the third tells a mis-typed cell (theorem C03_energy_tables_modulus_consistent_partial states the same over Gen)
from periodictable import nsf_tables as _nt
stats["table_rows_checked"] = 0
for (sym, iso), rows in _nt.ENERGY_DEPENDENT_TABLES.items():
    for row in rows:
        stats["table_rows_checked"] += 1
        e, re_, im_, mod = [float(x) for x in row[:4]]
        if abs(math.hypot(re_, im_) - mod) > 0.0125:
            who = "%s%s" % (sym, "" if iso is None else "[%d]" % iso)
            atom = TABLE.symbol(sym) if iso is None else TABLE.symbol(sym)[iso]
            served = attempt(lambda: atom.neutron.scattering_by_wavelength(nsf.neutron_wavelength(e * 1000.0))[0])
            fail("C03:energy-table-row-inconsistent:%s:%g" % (who, e),
                 "energy-dependent table of %s, row %g eV: Re(a) = %r, Im(a) = %r but |a| = %r (sqrt(Re^2+Im^2) = %.4f); "
                 "%s.neutron at that energy serves b_c = %r" % (who, e, re_, im_, mod, math.hypot(re_, im_), who, served),
                 atom=who, energy_eV=e, row=[e, re_, im_, mod])

# ---------------------------------------------------------------- A3. the package-level entry points
# periodictable.neutron_sld / neutron_scattering are the documented front doors: same arguments, same results as nsf.*
import periodictable as _pt
stats["package_level"] = 0
for _ in range(12 if not thorough else 120):
    seq_ = pool.nested(rng.randint(0, 2), must=[rng.choice(pool.tab)] if rng.random() < 0.5 else [])
    rho_ = pool.density()
    w_ = pool.wavelength(flat_atoms(seq_))
    for kw_ in (dict(wavelength=w_), dict(energy=EF_DOC / w_ ** 2), dict()):
        for name_ in ("neutron_scattering", "neutron_sld"):
            stats["package_level"] += 1
            a_ = attempt(getattr(_pt, name_), seq_, density=rho_, **kw_)
            b_ = attempt(getattr(nsf, name_), seq_, density=rho_, **kw_)
            t_ = "periodictable.%s(%r, density=%r%s)" % (name_, seq_, rho_, "".join(", %s=%r" % kv for kv in kw_.items()))
            if isinstance(a_, BaseException) or isinstance(b_, BaseException) or repr(a_) != repr(b_):
                fail("C03:package-level-call", "%s = %r, periodictable.nsf.%s with the same arguments gives %r" % (t_, a_, name_, b_), call=t_)

# ---------------------------------------------------------------- B. random compounds
for i in range(nrandom):
    must = []
    r = rng.random()
    if r < 0.35:
        must = [pool.ionize(rng.choice(pool.tab))]
    elif r < 0.45:
        must = [rng.choice(pool.tab), rng.choice(pool.tab)]
    seq = pool.nested(rng.randint(0, 3), must=must)
    atoms = flat_atoms(seq)
    dens = natd = None
    if rng.random() < 0.3:
        natd = pool.density()
    else:
        dens = pool.density()
    k = rng.random()
    vector = rng.random() < 0.25
    nw = rng.randint(1, 5) if vector else 1
    if k < 0.1:
        wkind, wv, vector = 0, [], False
    elif k < 0.7:
        wkind, wv = 1, [pool.wavelength(atoms) for _ in range(nw)]
    else:
        wkind, wv = 2, [EF_DOC / pool.wavelength(atoms) ** 2 for _ in range(nw)]
    call = 0 if rng.random() < 0.85 else 1
    add(call, seq, dens, natd, wkind, vector, wv, as_list=(vector and rng.random() < 0.3), tag="random")
    stats["random"] += 1

# ---------------------------------------------------------------- B2. whole-number wavelengths and energies as integer vectors
for i in range(10 if not thorough else 60):
    must = [rng.choice(pool.tab)] if rng.random() < 0.3 else []
    seq = pool.nested(rng.randint(0, 2), must=must)
    wkind = 1 if rng.random() < 0.8 else 2
    wv = [float(x) for x in rng.sample([1, 2, 3, 4, 5, 6, 7, 10, 12, 25] if wkind == 1 else [1, 2, 5, 10, 25, 40, 80], rng.randint(1, 4))]
    add(0 if rng.random() < 0.8 else 1, seq, pool.density(), None, wkind, True, wv, as_list=rng.random() < 0.5, tag="integer-vector")
    stats["integer_vector"] = stats.get("integer_vector", 0) + 1
a_ = rng.choice([el_ for el_ in pool.with_sld if not core.ision(el_) and el_ not in pool.tab][:40])
add(2, ((1, a_),), wkind=1, vector=True, wvals=[2.0, 4.0, 7.0], as_list=True, tag="integer-vector-atom")
add(2, ((1, a_),), wkind=1, vector=True, wvals=[3.0, 5.0], as_list=False, tag="integer-vector-atom")

# ---------------------------------------------------------------- C. the None path and atoms with b_c but no element density
for i in range(30 if not thorough else 200):
    bad = rng.choice(pool.none)
    seq = pool.nested(rng.randint(0, 2), must=[bad])
    add(rng.choice([0, 0, 1]), seq, pool.density(), None, 1, False, [pool.wavelength()], tag="none-path")
    stats["none_path"] += 1
for a in pool.none[:: (37 if not thorough else 5)]:
    add(2, ((1, a),), wkind=1, wvals=[1.798], tag="none-direct")
    add(3, ((1, a),), tag="none-direct-sld")
for a in pool.bc_only:
    if a.number == 0:
        continue
    seq = ((1, a), (rng.randint(1, 3), TABLE[8]))
    add(0, seq, pool.density(), None, 1, False, [pool.wavelength()], tag="b_c-without-element-density")
    add(2, ((1, a),), wkind=1, wvals=[1.798], tag="b_c-without-element-density-direct")
    stats["bc_without_density"] += 1

# ---------------------------------------------------------------- D. Formula objects that carry their own density
stats["formula_objects"] = 0
stats["formula_objects_keyword_differs"] = 0
for i in range(150 if not thorough else 3000):
    fobj, how = formula_object(rng, pool)
    own = fobj.density
    k = rng.random()
    dens = natd = None
    if k < 0.4:
        dens = pool.density()
    elif k < 0.7:
        natd = pool.density()
    call = rng.choice([0, 0, 1, 4]) if (dens is None and natd is None) else rng.choice([0, 0, 1])
    atoms_f = flat_atoms(fobj.structure)
    m = rng.random()
    vector = m > 0.8
    wkind = 0 if m < 0.15 else (2 if (m < 0.4 and call != 4) else 1)
    wv = [] if wkind == 0 else [pool.wavelength(atoms_f) if wkind == 1 else EF_DOC / pool.wavelength(atoms_f) ** 2
                                for _ in range(rng.randint(1, 3) if vector else 1)]
    if wkind == 0:
        vector = False
    res = run_call_formula(call, fobj, dens, natd, wkind, vector, wv)
    kwtxt = "".join([", density=%r" % dens if dens is not None else "", ", natural_density=%r" % natd if natd is not None else "",
                     "" if not wkind else ", %s=%r" % ("wavelength" if wkind == 1 else "energy", wv if vector else wv[0])])
    txt = ("%s.neutron_sld(%s)" % (how, kwtxt[2:])) if call == 4 else \
        "%s(%s%s)  [own density %r]" % ("neutron_scattering" if call == 0 else "neutron_sld", how, kwtxt, own)
    cases.append(callf_term(call, fobj, dens, natd, wkind, vector, wv, res))
    meta.append(dict(call=txt, tag="formula-object"))
    stats["formula_objects"] += 1
    for a in atoms_f:
        seen_atoms.add(atom_key(base_of(a)))
    # the documented result uses the keyword when one is given
    rho = documented_density(fobj, dens, natd)
    if rho is not None and own is not None and abs(rho - own) > 1e-9 * own:
        stats["formula_objects_keyword_differs"] += 1
    if isinstance(res, BaseException) or rho is None:
        if not (rho is None and (isinstance(res, AssertionError) or (call == 4 and res == (None, None, None)))):
            fail("C03:formula-object:raises", "%s gave %r" % (txt, res), call=txt)
        continue
    lams = [ABSW] if not wkind else [float(x) if wkind == 1 else math.sqrt(EF_DOC / float(x)) for x in wv]
    flat = flatten_result(res, vector, len(lams)) if isinstance(res, tuple) and res[0] is not None else None
    if flat is None:
        fail("C03:formula-object:shape", "%s returned %r" % (txt, res), call=txt)
        continue
    atoms_c = count_struct(fobj.structure)
    for q, lam in enumerate(lams):
        vals, scales = doc_equations(atoms_c, rho, lam)
        obs = [f[q] for f in flat]
        for j in compare_doc(obs, vals, scales):
            fail("C03:formula-object-density:" + NAMES[j],
                 "%s: %s = %r; the documented equations at the density of the call (%r: %s) give %r"
                 % (txt, NAMES[j], obs[j], rho, "density= keyword" if dens is not None else
                    ("natural_density= keyword" if natd is not None else "the formula's own density"), vals[j]),
                 call=txt, output=NAMES[j], observed=obs[j], expected=vals[j])

missing = [k for k in (atom_key(a) for a in pool.with_sld) if k not in seen_atoms]
for _t in sorted(set(ARG_MODIFIED))[:3]:
    fail("C03:argument-modified", _t, call=_t)
json.dump(dict(cases=cases, meta=meta, direct_fails=fails, stats=stats, n_with_sld=len(pool.with_sld),
               n_none=len(pool.none), n_bc_only=len(pool.bc_only), atoms_not_covered=missing,
               n_tables=len(pool.tab)), sys.stdout)
