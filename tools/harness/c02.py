"""C02 harness: random programs over formula objects (formula() dispatch, +, n*, +=, aliasing);
after every step a snapshot of every live variable.  Also evaluates the property's statements
directly on the implementation (additivity, operands unchanged, fractions sum to one)."""
import json, sys, random, copy
from pyenc import enc, attempt, cstr
from fcommon import *
import periodictable
from periodictable import formulas, constants
from periodictable.formulas import formula, Formula

seed, nprog, maxlen = int(sys.argv[1]), int(sys.argv[2]), int(sys.argv[3])
rng = random.Random(seed)
pool = Pool(periodictable.elements, rng)
EXACT_MULT = [0, 1, 1, 2, 3, 0.5, 1.5, 4, 0.25, 2, 1]


def snapshot(vars_):
    classes, out = {}, []
    for v in sorted(vars_):
        f = vars_[v]
        cid = classes.setdefault(id(f), len(classes))
        mass = attempt(lambda: f.mass)
        charge = attempt(lambda: f.charge)
        mf = attempt(lambda: f.mass_fraction)
        fs = None
        if isinstance(mf, dict) and mf:
            fs = sum(mf.values())
        out.append("(mkV %d %d %s %s %s %s %s %s %s %s %s)" % (
            v, cid, struct_term(f.structure), "true" if isinstance(f.structure, list) else "false",
            enc(f.density), optstr_term(f.name), enc(mass), enc(charge), enc(fs), cstr(str(f)),
            struct_term(f.hill.structure)))
    return "[" + "; ".join(out) + "]"


def rel(a, b, tol=1e-12, scale=None):
    s = scale if scale is not None else max(abs(a), abs(b))
    return abs(a - b) <= tol * s or a == b


def atoms_of(f):
    return {atom_key(a): c for a, c in f.atoms.items()}


def ref_counts(seq, mult, out):
    """count-weighted atom totals by plain recursion (the property's reading)"""
    for c, frag in seq:
        if core.isatom(frag):
            k = atom_key(frag)
            out[k] = out.get(k, 0) + c * mult
        else:
            ref_counts(frag, c * mult, out)
    return out


fails = []


def fail(sig, what, **kw):
    fails.append(dict(signature=sig, what=what, **kw))


def check_formula(f, prog_txt):
    """atoms = weighted sum over the structure; mass, charge, fractions"""
    at = atoms_of(f)
    ref = ref_counts(f.structure, 1, {})
    absref = ref_counts([(abs(c), fr) for c, fr in f.structure], 1, {}) if False else ref
    for k in set(at) | set(ref):
        if not rel(at.get(k, 0), ref.get(k, 0), 1e-11):
            fail("C02:atoms-not-weighted-sum", "atoms of %s: %r has count %r, structure gives %r" % (f, k, at.get(k), ref.get(k)),
                 program=prog_txt)
            return
    mass = sum(c * get_atom(periodictable.elements, k).mass for k, c in ref.items())
    if not rel(f.mass, mass, 1e-11):
        fail("C02:mass", "mass of %s is %r, sum of count*atomic mass is %r" % (f, f.mass, mass), program=prog_txt)
    for k, c in ref.items():
        a = get_atom(periodictable.elements, k)
        if k[2] != 0:
            base = get_atom(periodictable.elements, (k[0], k[1], 0))
            if not rel(a.mass, base.mass - k[2] * constants.electron_mass, 1e-14):
                fail("C02:ion-mass", "ion %r weighs %r, atom less electrons is %r" % (a, a.mass, base.mass - k[2] * constants.electron_mass))
    q = sum(c * k[2] for k, c in ref.items())
    qs = sum(abs(c * k[2]) for k, c in ref.items())
    if not rel(f.charge, q, 1e-11, scale=max(qs, 1e-300)):
        fail("C02:charge", "charge of %s is %r, expected %r" % (f, f.charge, q), program=prog_txt)
    if f.mass > 0:
        mf = f.mass_fraction
        if not rel(sum(mf.values()), 1.0, 1e-11):
            fail("C02:fractions-sum", "mass fractions of %s sum to %r" % (f, sum(mf.values())), program=prog_txt)
        for a, x in mf.items():
            if not rel(x, f.atoms[a] * a.mass / f.mass, 1e-12):
                fail("C02:fraction", "mass fraction of %r in %s" % (a, f), program=prog_txt)


def atom_text(a):
    z, A, q = atom_key(a)
    t = a.symbol if (z, A) in ((1, 2), (1, 3)) else (periodictable.elements[z].symbol + ("[%d]" % A if A else ""))
    if q:
        t += "{%s%s}" % (abs(q) if abs(q) > 1 else "", "+" if q > 0 else "-")
    return t


def count_text(exact):
    c = pool.count(exact)
    if c == 1:
        return ""
    return repr(c) if isinstance(c, float) else str(c)


def gen_string(exact, depth=2):
    return gen_string2(exact, depth)[0]


def gen_string2(exact, depth=2):
    """(string, {atom key: count} as the grammar reads it): parts joined by '+' or blanks; a part is a parenthesised group
    with a trailing count, or a run of atoms with their counts, optionally led by a count that multiplies the run"""
    parts, want = [], {}

    def add(d, mult):
        for k, c in d.items():
            want[k] = want.get(k, 0) + c * mult
    for _ in range(rng.randint(1, 3)):
        if depth > 0 and rng.random() < 0.35:
            inner, d = gen_string2(exact, depth - 1)
            ct = count_text(exact)
            parts.append("(" + inner + ")" + ct)
            add(d, float(ct) if ct else 1)
        else:
            d, text = {}, ""
            for _ in range(rng.randint(1, 3)):
                a = pool.atom()
                ct = count_text(exact)
                text += atom_text(a) + ct
                d[atom_key(a)] = d.get(atom_key(a), 0) + (float(ct) if ct else 1)
            lead = ""
            if rng.random() < 0.3:
                lead = rng.choice(["2", "3", "12", "0.5", "1.5"])
            parts.append(lead + text)
            add(d, float(lead) if lead else 1)
    return rng.choice(["+", " ", " + "]).join(parts), want


def gen_program(exact, length):
    vars_, ops, snaps, txt = {}, [], [], []
    nextv = 0
    parsed = {}
    readings = {}

    def q(x):
        return qterm(x)
    for step in range(length):
        kinds = ["formula"] * 3 + ["string"]
        if vars_:
            kinds += ["add"] * 3 + ["rmul"] * 3 + ["iadd"] * 2 + ["alias", "fromf"]
        k = rng.choice(kinds)
        before = {v: (id(f), copy.deepcopy(f.structure) if False else f.structure, f.density, f.name) for v, f in vars_.items()}
        touched = None
        if k == "string":
            v = nextv; nextv += 1
            # a string already parsed in this program is often parsed again (after the first result may have been
            # extended in place): what a string denotes does not depend on what was done with earlier results
            if parsed and rng.random() < 0.4:
                text = rng.choice(sorted(parsed))
            else:
                text, reading = gen_string2(exact)
                readings[text] = reading
            dens = rng.choice([None, None, round(rng.uniform(0.5, 12), 2)])
            name = rng.choice([None, None, "named%d" % step])
            vars_[v] = formula(text, density=dens, name=name)
            now = ref_counts(vars_[v].structure, 1, {})
            rd = readings.get(text)
            if rd is not None and (set(k for k, c in rd.items() if c) != set(k for k, c in now.items() if c)
                                   or any(not rel(now.get(k, 0), c, 1e-12) for k, c in rd.items())):
                fail("C02:parse-atoms", "formula(%r) has atoms %r; read as the grammar says (a leading count multiplies the run of atoms "
                     "after it, a trailing count its group) it has %r" % (text, now, rd), program="formula(%r)" % text)
            if text in parsed and parsed[text] != now:
                fail("C02:parse-depends-on-history", "formula(%r) has atoms %r now, %r when the program first parsed it; program: %s"
                     % (text, now, parsed[text], "; ".join(txt)), program="; ".join(txt + ["formula(%r)" % text]))
            parsed.setdefault(text, now)
            ops.append("(XParse %d %s %s None %s)" % (v, cstr(text), optq_term(dens), optstr_term(name)))
            txt.append("v%d = formula(%r, density=%r, name=%r)" % (v, text, dens, name))
        elif k == "formula":
            v = nextv; nextv += 1
            sk = rng.choice(["atom", "dict", "nested", "nested", "empty"])
            dens = rng.choice([None, None, round(rng.uniform(0.5, 12), 2)])
            name = rng.choice([None, None, "sample%d" % step])
            if sk == "atom":
                a = pool.atom()
                if a.density is None and dens is None and False:
                    pass
                f = formula(a, density=dens, name=name)
                s = "(SAtom %s)" % atom_term(a)
                txt.append("v%d = formula(%r, density=%r, name=%r)" % (v, a, dens, name))
            elif sk == "dict":
                d = {}
                for _ in range(rng.randint(1, 5)):
                    d[pool.atom()] = pool.count(exact)
                if rng.random() < 0.35:
                    # relatives of one element side by side: the element, two of its charge states, an isotope and its ion
                    el = rng.choice([e for e in pool.elements if len(e.ions) >= 2 and e.isotopes])
                    iso = el[rng.choice(el.isotopes)]
                    for a in rng.sample([el, el.ion[el.ions[0]], el.ion[el.ions[-1]], iso, iso.ion[el.ions[0]]], rng.randint(2, 4)):
                        d[a] = pool.count(exact)
                f = formula(dict(d), density=dens, name=name)
                want = {}
                for a, c in d.items():
                    want[atom_key(a)] = want.get(atom_key(a), 0) + c
                got = ref_counts(f.structure, 1, {})
                if set(k for k, c in want.items() if c) != set(k for k, c in got.items() if c) or \
                        any(not rel(got.get(k, 0), c, 1e-12) for k, c in want.items()):
                    fail("C02:constructor-loses-atoms", "formula(%r) has atoms %r" % (d, {repr(a): c for a, c in f.atoms.items()}),
                         program="formula(%r)" % d)
                s = "(SDict [%s])" % "; ".join("(%s, %s)" % (atom_term(a), q(c)) for a, c in d.items())
                txt.append("v%d = formula(%r, density=%r, name=%r)" % (v, d, dens, name))
            elif sk == "nested":
                n = pool.nested(rng.randint(0, 3), exact)
                if rng.random() < 0.25:
                    # the same structure handed over as one-shot iterables (zip, generators, iter) at every level
                    def lazily(seq):
                        return ((c, fr if core.isatom(fr) else lazily(fr)) for c, fr in seq)
                    g = attempt(lambda: formula(lazily(n) if rng.random() < 0.5 else zip([c for c, _ in n], [fr if core.isatom(fr) else iter(fr) for _, fr in n])))
                    if isinstance(g, Exception) or ref_counts(g.structure, 1, {}) != ref_counts(n, 1, {}):
                        fail("C02:constructor-loses-atoms", "formula(<the structure %r as one-shot iterables>) gives %s"
                             % (n, g if isinstance(g, Exception) else dict(g.atoms)), program="formula(iter(%r))" % (n,))
                f = formula(n, density=dens, name=name)
                s = "(SNested %s)" % struct_term(n)
                txt.append("v%d = formula(%r, density=%r, name=%r)" % (v, n, dens, name))
            else:
                f = formula(None, density=dens, name=name) if rng.random() < 0.5 else formula("", density=dens, name=name)
                s = "SEmpty"
                txt.append("v%d = formula('', density=%r, name=%r)" % (v, dens, name))
            vars_[v] = f
            ops.append("(XO (OFormula %d %s %s None %s))" % (v, s, optq_term(dens), optstr_term(name)))
        elif k == "fromf":
            x = rng.choice(sorted(vars_)); v = nextv; nextv += 1
            dens = rng.choice([None, None, round(rng.uniform(0.5, 12), 2)])
            name = rng.choice([None, None, "", "copy%d" % step])
            vars_[v] = formula(vars_[x], density=dens, name=name)
            ops.append("(XO (OFormula %d (SFormula %d) %s None %s))" % (v, x, optq_term(dens), optstr_term(name)))
            txt.append("v%d = formula(v%d, density=%r, name=%r)" % (v, x, dens, name))
        elif k == "add":
            x, y = rng.choice(sorted(vars_)), rng.choice(sorted(vars_)); v = nextv; nextv += 1
            vars_[v] = vars_[x] + vars_[y]
            ops.append("(XO (OAdd %d %d %d))" % (v, x, y))
            txt.append("v%d = v%d + v%d" % (v, x, y))
            ax, ay, av = atoms_of(vars_[x]), atoms_of(vars_[y]), atoms_of(vars_[v])
            exp = dict(ax)
            for kk, c in ay.items():
                exp[kk] = exp.get(kk, 0) + c
            if set(exp) != set(av) or any(not rel(exp[kk], av[kk], 1e-11) for kk in exp):
                fail("C02:add-not-additive", "atoms(x+y) != atoms(x)+atoms(y)", program="; ".join(txt))
        elif k == "rmul":
            x = rng.choice(sorted(vars_)); v = nextv; nextv += 1
            n = rng.choice(EXACT_MULT) if exact else rng.choice([0, 1, 2, 0.1, 1.5, 3, round(rng.uniform(0, 20), 3), 1e-3, 250])
            vars_[v] = n * vars_[x]
            ops.append("(XO (ORmul %d %s %d))" % (v, q(n), x))
            txt.append("v%d = %r * v%d" % (v, n, x))
            ax, av = atoms_of(vars_[x]), atoms_of(vars_[v])
            if set(ax) != set(av) or any(not rel(n * ax[kk], av[kk], 1e-11) for kk in ax):
                fail("C02:rmul-not-scaling", "atoms(n*x) != n*atoms(x) for n=%r" % n, program="; ".join(txt))
        elif k == "iadd":
            x, y = rng.choice(sorted(vars_)), rng.choice(sorted(vars_))
            ax, ay = atoms_of(vars_[x]), atoms_of(vars_[y])
            f = vars_[x]
            target = f
            f += vars_[y]
            if f is not target:
                # x += y extends the formula x refers to: every other name for it (an alias, a list slot, the caller's
                # variable when x is a function parameter) sees the sum
                fail("C02:iadd-not-in-place", "after `x = <formula>; alias = x; x += y`, x is a new object: the alias still has atoms %r, x has %r; program: %s"
                     % (dict(atoms_of(target)), dict(atoms_of(f)), "; ".join(txt + ["v%d += v%d" % (x, y)])), program="; ".join(txt + ["v%d += v%d" % (x, y)]))
            vars_[x] = f
            touched = id(f)
            ops.append("(XO (OIadd %d %d))" % (x, y))
            txt.append("v%d += v%d" % (x, y))
            exp = dict(ax)
            for kk, c in ay.items():
                exp[kk] = exp.get(kk, 0) + c
            av = atoms_of(vars_[x])
            if set(exp) != set(av) or any(not rel(exp[kk], av[kk], 1e-11) for kk in exp):
                fail("C02:iadd-not-additive", "atoms after x+=y != atoms(x)+atoms(y)", program="; ".join(txt))
        else:
            x = rng.choice(sorted(vars_)); v = nextv; nextv += 1
            vars_[v] = vars_[x]
            ops.append("(XO (OAlias %d %d))" % (v, x))
            txt.append("v%d = v%d" % (v, x))
        # an operation that returns a new formula returns a NEW object (otherwise a later += on the
        # result changes the operand)
        if k in ("add", "rmul", "fromf", "formula", "string"):
            newv = max(vars_)
            for v0, (oid, st, de, na) in before.items():
                if id(vars_[newv]) == oid:
                    fail("C02:result-aliases-operand", "%s returns the operand object itself (v%d is v%d), so a later += on "
                         "the result changes the operand" % (txt[-1], newv, v0), program="; ".join(txt))
        # operands unchanged: every pre-existing object other than the target of += is as before
        for v0, (oid, st, de, na) in before.items():
            f0 = vars_[v0]
            if id(f0) == oid and oid != touched:
                if f0.structure is not st and f0.structure != st or f0.density != de or f0.name != na:
                    fail("C02:operand-changed", "v%d changed by %s" % (v0, txt[-1]), program="; ".join(txt))
        for f in vars_.values():
            pass
        check_formula(vars_[max(vars_)] if k != "iadd" else vars_[x], "; ".join(txt))
        if any(len(repr(f.structure)) > 20000 for f in vars_.values()):
            ops.pop(); txt.pop()
            break   # runaway growth (e.g. through an aliased object): the program so far is still checked
        snaps.append(snapshot(vars_))
    case = "(%s, [%s], [%s])" % ("true" if exact else "false", "; ".join(ops), "; ".join(snaps))
    return case, txt


# every construction returns a NEW object (an empty formula shared between calls would be changed by += on one of them)
for what, make in (("formula('')", lambda: formula("")), ("formula()", lambda: formula()), ("formula(None)", lambda: formula(None)),
                   ("formula('H2O')", lambda: formula("H2O")), ("Formula()", lambda: Formula()), ("formula(' ')", lambda: formula(" "))):
    a, b = make(), make()
    if a is b:
        a += formula("H2O")
        c = make()
        if c.atoms:
            fail("C02:constructor-returns-shared-object", "%s returns one shared object: after a = %s; a += formula('H2O') a new %s has atoms %r"
                 % (what, what, what, dict(c.atoms)), program="a = %s; b = %s; a += formula('H2O'); %s.atoms" % (what, what, what))

cases, meta = [], []
# the electron mass an ion is lighter by is the recommended value (5.4857990946(22)e-4 u CODATA 2010; later adjustments
# differ by 4e-14), to a relative 1e-9
for a_ in (periodictable.elements.H.ion[1], periodictable.elements.Fe[56].ion[3], periodictable.elements.O.ion[-2]):
    me_ = (a_.element.mass - a_.mass) / a_.charge
    if abs(me_ - 5.4857990946e-4) > 5e-13 + 1e-12 * a_.element.mass:
        fail("C02:electron-mass", "%r weighs %r and %r weighs %r: (difference)/charge = %.12g u, the electron mass is 5.4857990946e-4 u"
             % (a_.element, a_.element.mass, a_, a_.mass, me_), program="elements.%r.mass" % a_)
if abs(constants.electron_mass - 5.4857990946e-4) > 5e-13:
    fail("C02:electron-mass", "constants.electron_mass is %r, the electron mass is 5.4857990946(22)e-4 u" % constants.electron_mass,
         program="constants.electron_mass")
# copying a formula into another table leaves the original alone (operands are unchanged)
try:
    from periodictable import core as _core, mass as _mass
    _T = _core.PeriodicTable("verif_c02")
    _mass.init(_T)
    from periodictable import density as _density
    _density.init(_T)
    # an atom object given together with table= is that atom (isotope and charge kept)
    import periodictable as _pt
    for tn_, tb_ in (("T", _T), ("elements", _pt.elements)):
        for lab_, a_ in (("Fe", tb_.Fe), ("Fe[56]", tb_.Fe[56]), ("Fe.ion[2]", tb_.Fe.ion[2]), ("Fe[56].ion[3]", tb_.Fe[56].ion[3]), ("D", tb_.D)):
            g_ = attempt(lambda: formula(a_, table=tb_))
            if isinstance(g_, Exception) or list(g_.atoms.items()) != [(a_, 1)] or any(k is not a_ for k in g_.atoms):
                fail("C02:constructor-loses-atoms", "formula(%s.%s, table=%s) has atoms %r" % (tn_, lab_, tn_, g_ if isinstance(g_, Exception) else dict(g_.atoms)),
                     program="formula(%s.%s, table=%s)" % (tn_, lab_, tn_))
        m_ = attempt(lambda: formulas.mix_by_weight(tb_.D, 1, tb_.C, 1, table=tb_))
        if isinstance(m_, Exception) or set(m_.atoms) != {tb_.D, tb_.C}:
            fail("C02:constructor-loses-atoms", "mix_by_weight(%s.D, 1, %s.C, 1, table=%s) has atoms %r" % (tn_, tn_, tn_, m_ if isinstance(m_, Exception) else dict(m_.atoms)),
                 program="mix_by_weight(%s.D, 1, %s.C, 1, table=%s)" % (tn_, tn_, tn_))
    for text in ("H2O@1", "Fe[56]{2+}O{2-}@5.7", "CaCO3(H2O)6@1.8"):
        f = formula(text)
        ids = [id(a) for a in f.atoms]
        g = formula(f, table=_T)
        h = formulas.mix_by_weight(f, 1, "NaCl@2.16", 2, table=_T)
        if [id(a) for a in f.atoms] != ids or any((getattr(a, "table", None) or a.element.table) != "public" for a in f.atoms):
            fail("C02:operand-changed", "f = formula(%r); formula(f, table=T) / mix_by_weight(f, .., table=T): f now holds %r"
                 % (text, {repr(a): getattr(a, "table", None) or a.element.table for a in f.atoms}), program="formula(formula(%r), table=T)" % text)
except Exception as e:  # noqa
    fail("C02:operand-changed", "formula(f, table=T) raised %s: %s" % (type(e).__name__, e), program="formula(f, table=T)")

# the mass of a formula is the sum over its atoms with the masses the table holds NOW
try:
    _T2 = _core.PeriodicTable("verif_c02_masses")
    _mass.init(_T2)
    f = formula("Fe{2+}3Fe[56]{3+}O{2-}4D{+}", table=_T2)
    m0 = f.mass
    _T2.Fe._mass, _T2.Fe[56]._mass, _T2.D._mass = 50.0, 51.0, 2.5
    want = 3 * (50.0 - 2 * constants.electron_mass) + (51.0 - 3 * constants.electron_mass) + 4 * (_T2.O.mass + 2 * constants.electron_mass) \
        + (2.5 - constants.electron_mass)
    if not rel(f.mass, want, 1e-13) or not rel(sum(f.mass_fraction.values()), 1.0, 1e-12):
        fail("C02:mass-stale-after-table-edit", "f = formula('Fe{2+}3Fe[56]{3+}O{2-}4D{+}', table=T); f.mass (%r); T.Fe._mass, T.Fe[56]._mass, T.D._mass = "
             "50, 51, 2.5; f.mass is %r, the sum over its atoms with T's masses is %r" % (m0, f.mass, want), program="edit masses after weighing")
except Exception as e:  # noqa
    fail("C02:mass-stale-after-table-edit", "weighing after a table edit raised %s: %s" % (type(e).__name__, e), program="edit masses after weighing")

stats = dict(exact=0, rounded=0, ops={})
for i in range(nprog):
    exact = (i % 3 != 2)
    length = rng.randint(2, maxlen)
    try:
        case, txt = gen_program(exact, length)
    except Exception as e:
        fail("C02:raises", "program raised %s: %s" % (type(e).__name__, e))
        continue
    cases.append(case)
    meta.append(txt)
    stats["exact" if exact else "rounded"] += 1
    for t in txt:
        kind = "iadd" if "+=" in t else "rmul" if "*" in t.split("=", 1)[1] and "formula" not in t else \
            "add" if " + " in t else "formula" if "formula(" in t else "alias"
        stats["ops"][kind] = stats["ops"].get(kind, 0) + 1
json.dump(dict(cases=cases, meta=meta, direct_fails=fails, stats=stats), sys.stdout)
