"""C19 harness: Hill form.  For random atom multisets (C, H, D, T, several charge states of one
element, isotope ions, ...) builds formulas holding the same atoms in many orders and groupings
and records what Formula.hill gives; also evaluates the property's own statements on the
implementation (same counts; C, H, then alphabetical, isotopes by mass number, ions by charge;
canonical; idempotent; a formula parsed from a string written in Hill order equals its Hill form)."""
import json, sys, random, itertools
from pyenc import enc, attempt, cstr, zlit
from fcommon import *
import periodictable
from periodictable import core
from periodictable.formulas import formula, Formula

seed, nsets = int(sys.argv[1]), int(sys.argv[2])
rng = random.Random(seed * 7919 + 19)
T = periodictable.elements
pool = Pool(T, rng)
MULTI_ION = [el for el in pool.elements if len(el.ions) >= 2]


# ------------------------------------------------------------------ independent reading of the order
def rank(sym):
    return 0 if sym == "C" else 1 if sym == "H" else 2


def doc_key(a):
    """carbon, hydrogen, then alphabetical; isotopes by mass number; ions by charge -- from the
    symbol, the mass number and the charge only"""
    z, A, q = atom_key(a)
    return (rank(a.symbol), a.symbol, A, q)


def ref_counts(seq, mult, out):
    for c, frag in seq:
        if core.isatom(frag):
            k = atom_key(frag)
            out[k] = out.get(k, 0) + c * mult
        else:
            ref_counts(frag, c * mult, out)
    return out


def atom_text(a):
    """how the atom is written in a formula string"""
    z, A, q = atom_key(a)
    if z == 1 and A in (2, 3):
        s = "D" if A == 2 else "T"
    else:
        s = T[z].symbol + ("[%d]" % A if A else "")
    if q:
        s += "{%s%s}" % (abs(q) if abs(q) > 1 else "", "+" if q > 0 else "-")
    return s


def count_text(c):
    if float(c) == int(c):
        return "" if c == 1 else str(int(c))
    return repr(float(c))


# ------------------------------------------------------------------ generation
def pick_atoms(n):
    atoms = {}

    def add(a):
        if len(atoms) < n:
            atoms.setdefault(atom_key(a), a)
    r = rng.random
    if r() < 0.6:
        add(T.C)
    if r() < 0.6:
        add(T.H)
    if r() < 0.35:
        add(T.D)
    if r() < 0.3:
        add(T.T)
    if r() < 0.55:          # several charge states of one element (and maybe the neutral atom)
        el = rng.choice(MULTI_ION) if r() < 0.7 else T[rng.choice([1, 6, 26, 25, 29, 17])]
        base = el
        if r() < 0.3 and el.isotopes:
            base = el[rng.choice(el.isotopes)]
        for q in rng.sample(list(el.ions), min(len(el.ions), rng.randint(2, 3))):
            add(base.ion[q])
        if r() < 0.4:
            add(base)
    if r() < 0.35:          # isotope ion, and maybe another isotope of the same element
        a = pool.atom(kinds=("isoion",))
        add(a)
        if r() < 0.5:
            el = T[a.number]
            add(el[rng.choice(el.isotopes)])
    if r() < 0.3:           # isotopes of one element
        el = T[rng.choice([1, 6, 8, 17, 26, 92, 3, 5])]
        for A in rng.sample(list(el.isotopes), min(len(el.isotopes), 2)):
            add(el[A])
        if r() < 0.5:
            add(el)
    if r() < 0.25:          # D / T ions
        add(rng.choice([T.D, T.T, T.H]).ion[rng.choice([-1, 1])])
    guard = 0
    while len(atoms) < n and guard < 200:
        add(pool.atom())
        guard += 1
    return list(atoms.values())


def group(items, depth):
    """items: [(count, atom)] in a fixed order -> nested structure with the same atoms in the
    same order and the same totals (group multipliers are powers of two, so exact)"""
    out, i = [], 0
    while i < len(items):
        if depth > 0 and rng.random() < 0.3:
            w = rng.randint(1, min(4, len(items) - i))
            m = rng.choice([1, 2, 4, 0.5, 2, 1])
            inner = [(c / m, a) for c, a in items[i:i + w]]
            out.append((m, group(inner, depth - 1)))
            i += w
        else:
            c, a = items[i]
            if rng.random() < (0.6 if len(items) == 1 else 0.12):      # the same atom written twice in a row
                out.append((c / 2, a)); out.append((c / 2, a))
            else:
                out.append((c, a))
            i += 1
    return tuple(out) if rng.random() < 0.6 else out


fails = {}
CHARGE = "C19:hill-order-ignores-charge"


def fail(sig, what, **kw):
    d = fails.get(sig)
    if d is None:
        d = fails[sig] = dict(signature=sig, what=what, count=0, **kw)
    elif len(what) < len(d["what"]):      # keep the shortest failing input of each kind
        d.update(dict(what=what, **kw))
    d["count"] += 1


def hill_atoms(h):
    return [fr for c, fr in h.structure]


def order_defect(seq):
    """first adjacent pair of atoms of seq that is out of the documented order, classified"""
    for x, y in zip(seq, seq[1:]):
        if not core.isatom(x) or not core.isatom(y):
            return "C19:hill-not-flat", (x, y)
        kx, ky = doc_key(x), doc_key(y)
        if kx > ky:
            if kx[:3] == ky[:3]:
                return "C19:hill-order-ignores-charge", (x, y)
            if kx[:2] == ky[:2]:
                return "C19:hill-order-isotopes", (x, y)
            return "C19:hill-order", (x, y)
    return None, None


def show(seq):
    return repr(seq)


cases, meta = [], []
stats = dict(sets=0, formulas=0, pairs=0, ordered=0, charge_tie_sets=0, with_CH=0, with_DT=0, isoion_sets=0,
             sizes={}, str_simple=0, negative_pairs=0)

for si in range(nsets):
    n = 2 + (si % 7) if si < 14 else rng.randint(2, 8)
    if si % 9 == 8:
        n = 1      # a single species written as several terms / groups (O2O vs O3)
    atoms = pick_atoms(n) if n > 1 else [pool.atom()]
    n = len(atoms)
    counts = [float(pool.count(True)) if rng.random() < 0.7 else pool.count(True) for _ in atoms]
    items = list(zip(counts, atoms))
    keys = [atom_key(a) for a in atoms]
    tie = len(set((a.symbol, k[1]) for a, k in zip(atoms, keys))) < n
    stats["sets"] += 1
    stats["sizes"][str(n)] = stats["sizes"].get(str(n), 0) + 1
    stats["charge_tie_sets"] += tie
    stats["with_CH"] += any(a.symbol in ("C", "H") for a in atoms)
    stats["with_DT"] += any(a.symbol in ("D", "T") for a in atoms)
    stats["isoion_sets"] += any(k[1] and k[2] for k in keys)
    if n == 1:
        orders = [(0,)] * 6
    elif n <= 5:
        orders = list(itertools.permutations(range(n)))
    else:
        orders = [tuple(rng.sample(range(n), n)) for _ in range(30)]
    label = " ".join(atom_text(a) + count_text(c) for c, a in items)
    ref = {k: c for (c, a), k in zip(items, keys)}
    expected = sorted(atoms, key=doc_key)
    forms, obs = [], []
    try:
        for oi, order in enumerate(orders):
            seq = [items[i] for i in order]
            st = group(seq, 0 if oi == 0 else rng.randint(0, 3))
            forms.append((st, formula(st)))
        # one formula that differs in one count: its Hill form must differ
        vi = rng.randrange(n)
        vseq = [((c + 1) if i == vi else c, a) for i, (c, a) in enumerate(items)]
        forms.append((tuple(vseq), formula(tuple(vseq))))
        nsame = len(forms) - 1
        # formulas derived by arithmetic from an object whose Hill form has ALREADY been read
        # (a memoised Hill form that is not invalidated shows here)
        for _ in range(2):
            st0, f0 = forms[rng.randrange(nsame)]
            _ = f0.hill
            k = rng.choice([2, 4, 0.5, 3])
            g = k * f0
            forms.append((g.structure, g))
            g2 = formula(st0)
            _ = g2.hill
            g2 += f0
            forms.append((g2.structure, g2))
        hills = []
        for fi, (st, f) in enumerate(forms):
            h = f.hill
            hills.append(h)
            hs = h.structure
            idem = (h.hill == h)
            text = str(h)
            obs.append("(mkO %s %s %s %s %s %s)" % (
                struct_term(f.structure), struct_term(hs), "true" if isinstance(hs, list) else "false",
                cstr(text), "true" if idem else "false", enc(h.density)))
            stats["formulas"] += 1
            stats["str_simple"] += all(float("%g" % c) == c and (c == 0 or 1e-4 <= c < 1e6) for c, _ in hs)
            inp = "formula(%s)" % show(st)
            # --- the property's statements on the implementation
            want = ref_counts(f.structure, 1, {})
            got = {}
            for a, c in h.atoms.items():
                got[atom_key(a)] = got.get(atom_key(a), 0) + c
            if got != want:
                fail("C19:hill-atoms-differ", "%s.hill has atom counts %r, the formula has %r" % (inp, got, want), input=inp)
            sig, pair = order_defect(hill_atoms(h))
            if sig and sig != CHARGE:      # the order among charge states is judged by the canonical check below
                fail(sig, "%s.hill is %s: %r is listed before %r (documented order: C, H, then by symbol, "
                     "isotopes by mass number)" % (inp, text, pair[0], pair[1]), input=inp, hill=text)
            if not idem:
                fail("C19:hill-not-idempotent", "f.hill.hill != f.hill for f = %s (hill %s, hill.hill %s)"
                     % (inp, text, h.hill), input=inp)
        # --- canonical: all orders and groupings give one Hill form
        pairs = []
        cand = [(0, j) for j in range(1, len(forms))] + \
               [(rng.randrange(nsame), rng.randrange(len(forms))) for _ in range(len(forms))]
        for i, j in cand:
            eq = (hills[i] == hills[j])
            pairs.append("(%d, %d, %s)" % (i, j, "true" if eq else "false"))
            stats["pairs"] += 1
            same = i < nsame and j < nsame
            stats["negative_pairs"] += (not same)
            if same and not eq:
                a_, b_ = "formula(%s)" % show(forms[i][0]), "formula(%s)" % show(forms[j][0])
                what = "%s.hill is %s but %s.hill is %s (same atoms and counts)" % (a_, hills[i], b_, hills[j])
                si_, _ = order_defect(hill_atoms(hills[i]))
                sj_, _ = order_defect(hill_atoms(hills[j]))
                if CHARGE in (si_, sj_) and [doc_key(a)[:3] for a in hill_atoms(hills[i])] == \
                        [doc_key(a)[:3] for a in hill_atoms(hills[j])]:
                    # search for the smallest failing input: the two tied atoms alone, in both orders
                    bad = si_ == CHARGE and order_defect(hill_atoms(hills[i]))[1] or order_defect(hill_atoms(hills[j]))[1]
                    s1, s2 = ((1, bad[0]), (1, bad[1])), ((1, bad[1]), (1, bad[0]))
                    h1, h2 = formula(s1).hill, formula(s2).hill
                    if h1 != h2:
                        a_, b_ = "formula(%s)" % show(s1), "formula(%s)" % show(s2)
                        what = "%s.hill is %s but %s.hill is %s (same atoms and counts)" % (a_, h1, b_, h2)
                    fail(CHARGE, what + ": atoms that differ only in charge are left in input order, so the Hill form "
                         "is not canonical", input=[a_, b_])
                else:
                    fail("C19:hill-not-canonical", what, input=[a_, b_])
            if same and eq and str(hills[i]) != str(hills[j]):
                fail("C19:hill-not-canonical", "equal Hill forms print differently: %s / %s" % (hills[i], hills[j]))
            if not same and i != j and eq:
                fail("C19:hill-equal-for-different-counts", "%s and %s have equal Hill forms" % (forms[i][0], forms[j][0]))
        # --- a formula written in Hill order and parsed from the string equals its own Hill form
        # (atoms differing only in charge are written in the order the implementation itself puts them:
        # the documentation does not say which charge comes first)
        impl_pos = {atom_key(a): k for k, a in enumerate(hill_atoms(hills[0])) if core.isatom(a)}
        expected = sorted(atoms, key=lambda a: (doc_key(a)[:3], impl_pos.get(atom_key(a), 0)))
        ordered = []
        texts = ["".join(atom_text(a) + count_text(ref[atom_key(a)]) for a in expected)]
        if n >= 3:
            sub = [a for a in expected if rng.random() < 0.6] or expected[:1]
            texts.append("".join(atom_text(a) + count_text(ref[atom_key(a)]) for a in sub))
        for text in texts:
            p = formula(text)
            ph = p.hill
            eq = (p == ph)
            ordered.append("(%s, %s, %s)" % (struct_term(p.structure), "true" if isinstance(p.structure, list) else "false",
                                             "true" if eq else "false"))
            stats["ordered"] += 1
            patoms = [fr for c, fr in p.structure]
            if not all(core.isatom(x) for x in patoms) or order_defect(patoms)[0] not in (None, CHARGE):
                fail("C19:harness-ordered-string", "formula(%r) did not parse to the atoms in the order written: %r"
                     % (text, p.structure))
                continue
            if not eq:
                inp = "formula(%r)" % text
                if type(p.structure) != type(ph.structure) and list(p.structure) == list(ph.structure):
                    fail("C19:hill-structure-is-list", "f == f.hill is False for f = %s, which is written in Hill order: "
                         "f.structure is %r, f.hill.structure is %r (same items, but a %s against a %s)"
                         % (inp, p.structure, ph.structure, type(p.structure).__name__, type(ph.structure).__name__), input=inp)
                elif order_defect(hill_atoms(ph))[0] == "C19:hill-order-ignores-charge":
                    fail("C19:hill-order-ignores-charge", "f == f.hill is False for f = %s, written in Hill order; f.hill is %s"
                         % (inp, ph), input=inp)
                else:
                    fail("C19:ordered-not-own-hill", "f == f.hill is False for f = %s, written in Hill order; f.hill.structure is %r"
                         % (inp, ph.structure), input=inp)
    except Exception as e:
        import traceback
        fail("C19:raises", "building Hill forms for the atoms %s raised %s: %s" % (label, type(e).__name__, e),
             input=label, trace=traceback.format_exc()[-600:])
        continue
    cases.append("([%s], [%s], [%s])" % (";\n ".join(obs), "; ".join(pairs), "; ".join(ordered)))
    meta.append(dict(atoms=label, n=n, formulas=len(forms), charge_tie=bool(tie), ordered=texts))

# ------------------------------------------------------------------ named formulas, formulas with a density
stats["named"] = 0
for text, nm in (("CH4O", "methanol"), ("C2H6O@0.789", "ethanol"), ("H2O@1", "water"), ("NaCl", "salt")):
    try:
        f, g = formula(text, name=nm), formula(text)
        stats["named"] += 1
        if text in ("CH4O", "H2O@1") and not (f == f.hill):
            fail("C19:ordered-not-own-hill", "f == f.hill is False for f = formula(%r, name=%r), written in Hill order" % (text, nm),
                 input="formula(%r, name=%r)" % (text, nm))
        if str(f.hill) != str(g.hill) or f.hill != g.hill:
            fail("C19:hill-of-named-formula", "formula(%r, name=%r).hill prints %r, formula(%r).hill prints %r (equal atom counts have equal "
                 "Hill forms)" % (text, nm, str(f.hill), text, str(g.hill)), input="formula(%r, name=%r).hill" % (text, nm))
    except Exception as e:  # noqa
        fail("C19:raises", "Hill form of a named formula raised %s: %s" % (type(e).__name__, e), input=text)

# ------------------------------------------------------------------ counts that are not short decimals
# thirds, sevenths, sums such as 0.1 + 0.2, and counts below 1e-12: the Hill form has exactly the atom counts of the
# formula (it is built from them), whatever their digits
stats["inexact"] = 0
for _ in range(40):
    try:
        atoms = pick_atoms(rng.randint(2, 5))
        parts = [(rng.choice([1 / 3.0, 2 / 7.0, 0.1 + 0.2, 1e-13 / 3, 5e-13, 1e5 / 7, rng.random(), 10 ** rng.uniform(-14, 3)]), a) for a in atoms]
        if rng.random() < 0.3:
            parts[rng.randrange(len(parts))] = (0.0, parts[0][1] if len(parts) == 1 else parts[-1][1])     # an atom whose total count is zero is still listed
        f = formula(tuple(parts))
        if rng.random() < 0.5:
            f = (1 / 3.0) * f + (1 / 7.0) * formula(tuple(parts[:2]))
        h = f.hill
        stats["inexact"] += 1
        fa = {atom_key(a): c for a, c in f.atoms.items()}
        ha = {atom_key(a): c for a, c in h.atoms.items()}
        inp = "formula(%s).hill" % show(f.structure)
        if fa != ha:
            fail("C19:hill-atoms-differ", "%s has atom counts %r, the formula has %r" % (inp, ha, fa), input=inp)
        elif h.hill != h or {atom_key(a): c for a, c in h.hill.atoms.items()} != ha:
            fail("C19:hill-not-idempotent", "%s: taking the Hill form twice changes it" % inp, input=inp)
    except Exception as e:  # noqa
        fail("C19:raises", "Hill form of a formula with inexact counts raised %s: %s" % (type(e).__name__, e), input="inexact counts")
        break

# ------------------------------------------------------------------ the same statements over a private table
# (same counts means the same atoms: those of the formula's own table)
try:
    from periodictable import mass as _mass
    PRIV = core.PeriodicTable("c19private")
    _mass.init(PRIV)
    stats["private_table"] = 0
    for text in ["CH4", "H2O", "HDO", "NaCl", "Fe{2+}Fe{3+}2O4", "O[18]H2", "C6H5D", "Ca(OH)2", "SiO2 + 2H2O", "D2O"] + \
            ["".join("%s%d" % (rng.choice(pool.elements).symbol, rng.randint(1, 9)) for _ in range(rng.randint(2, 5))) for _ in range(12)]:
        f = attempt(lambda: formula(text, table=PRIV))
        if isinstance(f, Exception):
            continue
        stats["private_table"] += 1
        h = attempt(lambda: f.hill)
        inp = "formula(%r, table=private).hill" % text
        if isinstance(h, Exception):
            fail("C19:raises", "%s raised %s: %s" % (inp, type(h).__name__, h), input=inp)
            continue
        if any(getattr(a, "table", None) != "c19private" for a in f.atoms):
            fail("C19:harness-private-parse", "formula(%r, table=private) holds atoms of another table" % text, input=inp)
            continue
        if h.atoms != f.atoms or any(not any(a is b for b in f.atoms) for a in h.atoms):
            fail("C19:hill-changes-atoms:private-table", "%s has atoms %r, the formula has %r (atoms of the %s table)"
                 % (inp, {repr(a): (c, a.table) for a, c in h.atoms.items()}, {repr(a): (c, a.table) for a, c in f.atoms.items()}, "private"), input=inp)
        elif attempt(lambda: h.hill == h) is not True:
            fail("C19:hill-not-idempotent", "%s: taking the Hill form twice changes it" % inp, input=inp)
except Exception as e:  # noqa
    import traceback
    fail("C19:raises", "the private-table statements raised %s: %s" % (type(e).__name__, e), input="private table", trace=traceback.format_exc()[-600:])

json.dump(dict(cases=cases, meta=meta, direct_fails=list(fails.values()), stats=stats), sys.stdout)
