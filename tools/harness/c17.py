"""C17 harness: neutron_composite_sld(materials, wavelength)(weights, density) against the direct
neutron_sld of the formula sum_i w_i*material_i at the same density: 1..6 materials (energy-dependent
isotopes, repeated materials), non-negative weights with zeros, densities >= 0, scalar / length-1 /
length-n wavelengths.  Both results go to the Coq check (model of _compute, documented equations on
the sum formula, model of neutron_sld); the two implementation routes are compared here directly."""
import json, sys, random, math
import numpy as np
from c03lib import *
from periodictable.formulas import formula

seed, ncases, tier = int(sys.argv[1]), int(sys.argv[2]), sys.argv[3]
rng = random.Random(seed + 1717)
pool = NPool(rng)
cases, meta, fails = [], [], []
stats = dict(cases=0, zero_weight=0, zero_density=0, all_zero=0, scalar=0, length1=0, vector=0, repeated=0,
             with_table_atom=0, materials={}, clipped_incoherent=0)


def fail(sig, what, **kw):
    fails.append(dict(signature=sig, what=what, **kw))


def shape_of(v):
    v = tolist(v)
    return len(v) if isinstance(v, list) else None


# ---- the calculator as the first neutron calculation of the process: materials holding atoms with energy-dependent
# tables, calculators built and evaluated before any direct calculation has run, then compared with the direct route
first_ = []
for names_, ws_, rho_, lam_ in [(("Gd(NO3)3", "H2O"), [1.0, 20.0], 1.2, [0.5, 0.9, 1.8]),
                                (("Sm[149]2O3", "Er2O3"), [1.0, 2.0], 7.0, [0.3, 1.0]),
                                (("Lu[176]", "Yb", "Eu[151]Cl3"), [2.0, 1.0, 0.5], 8.5, [0.7])]:
    mats_ = [formula(n_) for n_ in names_]
    first_.append((names_, ws_, rho_, lam_, mats_,
                   attempt(lambda: nsf.neutron_composite_sld(mats_, wavelength=lam_)(np.array(ws_), density=rho_))))
for names_, ws_, rho_, lam_, mats_, res_c in first_:
    mix_ = ws_[0] * mats_[0]
    for w_, m_ in zip(ws_[1:], mats_[1:]):
        mix_ = mix_ + w_ * m_
    res_d = attempt(lambda: nsf.neutron_sld(mix_, density=rho_, wavelength=lam_))
    txt_ = "neutron_composite_sld(%r, wavelength=%r)(%r, density=%r) as the first neutron calculation of the process" % (
        list(names_), lam_, ws_, rho_)
    stats["calculator_first"] = stats.get("calculator_first", 0) + 1
    if isinstance(res_c, BaseException) or isinstance(res_d, BaseException):
        fail("C17:raises", "%s: composite %r, direct %r" % (txt_, res_c, res_d), call=txt_)
        continue
    fc_, fd_ = flatten_result(tuple(res_c), True, len(lam_)), flatten_result(tuple(res_d), True, len(lam_))
    if fc_ is None or fd_ is None:
        fail("C17:shape", "%s: direct %r composite %r" % (txt_, res_d, res_c), call=txt_)
        continue
    for j_ in range(3):
        for q_ in range(len(lam_)):
            a_, b_ = fc_[j_][q_], fd_[j_][q_]
            if not abs(a_ - b_) <= 1e-9 * max(abs(a_), abs(b_)):
                fail("C17:composite-vs-direct:" + NAMES[j_], "%s: composite %s = %r at wavelength %r, direct neutron_sld of the sum formula "
                     "gives %r" % (txt_, NAMES[j_], a_, lam_[q_], b_), call=txt_, output=NAMES[j_])

for i in range(ncases):
    k = rng.randint(1, 6)
    seqs = []
    for j in range(k):
        must = [rng.choice(pool.tab)] if rng.random() < 0.3 else []
        seqs.append(pool.nested(rng.randint(0, 2), width=2, must=must, ions=rng.random() < 0.5))
    if k >= 2 and rng.random() < 0.25:
        seqs[rng.randrange(k)] = seqs[rng.randrange(k)]
        stats["repeated"] += 1
    mats = [formula(s) for s in seqs]
    atoms = [a for s in seqs for a in flat_atoms(s)]
    if any(base_of(a).neutron.nsf_table is not None for a in atoms):
        stats["with_table_atom"] += 1
    stats["materials"][k] = stats["materials"].get(k, 0) + 1
    # weights
    r = rng.random()
    ws = [rng.choice([0, 1, 2, 3, 0.5, round(rng.uniform(0, 20), rng.randint(0, 3))]) for _ in range(k)]
    if r < 0.07:
        ws = [0.0] * k
        stats["all_zero"] += 1
    elif r < 0.3:
        ws[rng.randrange(k)] = 0.0
    if any(w == 0 for w in ws):
        stats["zero_weight"] += 1
    rho = 0.0 if rng.random() < 0.06 else pool.density()
    sc_kind = rng.random()
    if sc_kind < 0.08:        # weights on a tiny absolute scale (moles of a trace sample)
        kscale = float("%.3g" % 10 ** rng.uniform(-14, -6))
        ws = [float(w) * kscale for w in ws]
        stats["tiny_weights"] = stats.get("tiny_weights", 0) + 1
    elif sc_kind < 0.16 and rho:      # a very dilute gas
        rho = float("%.3g" % 10 ** rng.uniform(-15, -6))
        stats["tiny_density"] = stats.get("tiny_density", 0) + 1
    weights = np.array([float(w) for w in ws])
    if rho == 0:
        stats["zero_density"] += 1
    # wavelength argument
    m = rng.random()
    if m < 0.1:
        wkind, vector, wv, arg = 0, False, [], None
    elif m < 0.45:
        wkind, vector, wv = 1, False, [pool.wavelength(atoms)]
        arg = wv[0]
        if rng.random() < 0.3:
            # a scalar that is a numpy scalar (an element of an array, a float32, an integer): still a scalar
            kind_ = rng.choice(["float64", "float32", "int64", "int32"])
            if kind_.startswith("int"):
                wv = [float(rng.choice([1, 2, 4, 5, 6]))]
            elif kind_ == "float32":
                wv = [float(np.float32(wv[0]))]
            arg = getattr(np, kind_)(wv[0])
            stats["numpy_scalar"] = stats.get("numpy_scalar", 0) + 1
    elif m < 0.6:
        wkind, vector, wv = 1, True, [pool.wavelength(atoms)]
        arg = list(wv) if rng.random() < 0.5 else np.array(wv)
    else:
        wkind, vector, wv = 1, True, [pool.wavelength(atoms) for _ in range(rng.randint(2, 5))]
        arg = list(wv) if rng.random() < 0.5 else np.array(wv)
    stats["scalar" if not vector else ("length1" if len(wv) == 1 else "vector")] += 1
    kw = {} if wkind == 0 else dict(wavelength=arg)
    txt = "neutron_composite_sld(%r%s)(%r, density=%r)" % (seqs, "" if wkind == 0 else ", wavelength=%r" % (wv if vector else wv[0]),
                                                           list(map(float, ws)), rho)
    res_c = attempt(lambda: nsf.neutron_composite_sld(mats, **kw)(weights, density=rho))
    # the weighted-sum formula, built with the formula arithmetic
    mix = float(ws[0]) * mats[0]
    for w, mtl in zip(ws[1:], mats[1:]):
        mix = mix + float(w) * mtl
    res_d = attempt(lambda: nsf.neutron_sld(mix, density=rho, **kw))
    cases.append("(C17 [%s] %s %s %d %s %s %s %s %s)" % (
        "; ".join(struct_term(s) for s in seqs), qlist(ws), qterm(float(rho)), wkind, "true" if vector else "false",
        qlist(wv), struct_term(mix.structure), enc_result(res_c), enc_result(res_d)))
    meta.append(dict(call=txt, tag="composite"))
    stats["cases"] += 1
    # ---- the property on the implementation alone: the two routes agree, shapes follow the wavelength
    if isinstance(res_c, BaseException) or isinstance(res_d, BaseException):
        fail("C17:raises", "%s: composite %r, direct %r" % (txt, res_c, res_d), call=txt)
        continue
    total = sum(w * mtl.mass for w, mtl in zip(ws, mats))
    if total * rho == 0:
        if not (all(np.all(np.asarray(v) == 0) for v in res_c) and all(np.all(np.asarray(v) == 0) for v in res_d)):
            fail("C17:zeros", "%s: zero weight or density but composite %r, direct %r" % (txt, res_c, res_d), call=txt)
        continue
    want = len(wv) if vector else None
    if any(shape_of(v) != want for v in res_c):
        fail("C17:shape", "%s: outputs %r are not shaped like the wavelength argument" % (txt, res_c), call=txt)
        continue
    fc, fd = flatten_result(tuple(res_c), vector, len(wv) if vector else 1), flatten_result(tuple(res_d), vector, len(wv) if vector else 1)
    if fc is None or fd is None:
        fail("C17:shape", "%s: direct %r composite %r" % (txt, res_d, res_c), call=txt)
        continue
    lams = wv if wkind else [1.798]
    tot = count_struct(mix.structure)
    tot = {a: c for a, c in tot.items()}
    for q, lam in enumerate(lams):
        vals, scales = doc_equations({a: c for a, c in tot.items() if True}, rho, float(lam))
        if vals[5] == 0:
            stats["clipped_incoherent"] += 1
        for j in range(3):
            a, b = fc[j][q], fd[j][q]
            if j == 2:
                ok = abs(a * a - b * b) <= 1e-11 * scales[2]
            else:
                ok = abs(a - b) <= 1e-12 * abs(scales[j])
            if not ok:
                fail("C17:composite-vs-direct:" + NAMES[j], "%s: composite %s = %r, direct neutron_sld of the sum formula gives %r"
                     % (txt, NAMES[j], a, b), call=txt, output=NAMES[j])

    # ---- the calculator is a function of its arguments: calling it again, with the same array object changed in
    # place in between, gives what a fresh calculator gives, and the call leaves the array alone
    if i % 4 == 0 and k >= 1:
        stats["repeated_calls"] = stats.get("repeated_calls", 0) + 1
        calc = attempt(lambda: nsf.neutron_composite_sld(mats, **kw))
        w = weights.copy()
        first = attempt(lambda: calc(w, density=rho))
        if not isinstance(first, BaseException) and not np.array_equal(w, weights):
            fail("C17:argument-modified", "%s: the weights array was changed by the call: %r" % (txt, w.tolist()), call=txt)
        w[0] += rng.choice([2.5, 1.0, 0.25])
        w[-1] *= rng.choice([0.5, 0.0, 3.0])
        w2 = w.copy()
        held = None if isinstance(first, BaseException) else [np.array(x, dtype=float, copy=True) for x in first]
        again = attempt(lambda: calc(w, density=rho))
        if held is not None and any(not np.array_equal(np.asarray(a_, dtype=float), b_, equal_nan=True) for a_, b_ in zip(first, held)):
            fail("C17:earlier-result-changed", "%s: the result of the first call, still held by the caller, was changed by the second call: %r became %r"
                 % (txt, [b_.tolist() for b_ in held], [np.asarray(a_, dtype=float).tolist() for a_ in first]), call=txt)
        fresh = attempt(lambda: nsf.neutron_composite_sld(mats, **kw)(w2, density=rho))
        t3 = "%s; then the same array changed in place to %r and the calculator called again" % (txt, w2.tolist())
        if isinstance(again, BaseException) or isinstance(fresh, BaseException):
            if type(again) is not type(fresh):
                fail("C17:repeated-call", "%s: %r, a fresh calculator gives %r" % (t3, again, fresh), call=t3)
        else:
            for j in range(3):
                a, b = np.ravel(np.asarray(again[j], dtype=float)), np.ravel(np.asarray(fresh[j], dtype=float))
                if a.shape != b.shape or not np.allclose(a, b, rtol=1e-12, atol=0):
                    fail("C17:repeated-call", "%s: %s = %r, a fresh calculator gives %r" % (t3, NAMES[j], a.tolist(), b.tolist()), call=t3)
                    break

json.dump(dict(cases=cases, meta=meta, direct_fails=fails, stats=stats), sys.stdout)
