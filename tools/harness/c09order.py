"""C09, breadth over atoms: every lazily loaded value of every element (and two isotopes and one ion of each), read
in several orders, each order in a fresh interpreter.  The served value of an atom must not depend on which other
atoms were read before it (the histories of c09.py vary the events but use a few representative atoms; this stream
varies the atoms: it is what exposes one atom being served another atom's data, e.g. through a cache keyed by a
derived name).

  c09order.py <seed> <tier>            -> JSON {direct_fails, stats}
  c09order.py --child                  (order on stdin) -> JSON {key: digest}
  c09order.py --pair '<json [[z,attr],[z,attr]]>'   replay of one reported pair
"""
import sys, os, json, hashlib, random, subprocess

ATTRS = ["xray", "neutron", "covalent_radius", "covalent_radius_uncertainty", "crystal_structure", "magnetic_ff",
         "K_alpha", "K_beta1", "neutron_activation"]


def view(v, depth=0):
    import numpy as np
    from periodictable import core
    if v is None or isinstance(v, (bool, int, str)):
        return v
    if isinstance(v, float):
        return repr(v)
    if isinstance(v, complex):
        return [repr(v.real), repr(v.imag)]
    if isinstance(v, (core.Element, core.Isotope, core.Ion)):
        return "atom:%r@%s" % (v, getattr(v, "table", "?"))
    if isinstance(v, np.ndarray):
        return ["array", list(v.shape), hashlib.sha1(np.ascontiguousarray(v).tobytes()).hexdigest()[:12]]
    if isinstance(v, np.generic):
        return repr(v.item())
    if depth > 5:
        return "..."
    if isinstance(v, (list, tuple)):
        return [view(x, depth + 1) for x in v]
    if isinstance(v, dict):
        return {str(k): view(x, depth + 1) for k, x in sorted(v.items(), key=lambda kv: str(kv[0]))}
    if hasattr(v, "__dict__"):
        return {"class": type(v).__name__, **{k: view(x, depth + 1) for k, x in sorted(vars(v).items())}}
    return repr(type(v))


def observe(atom, attr):
    try:
        v = getattr(atom, attr)
    except Exception as e:  # noqa
        return "raises " + type(e).__name__
    if attr == "xray":
        # the x-ray object is lazy itself: its table is read on first use
        try:
            tab = v.sftable
        except Exception as e:  # noqa
            tab = "raises " + type(e).__name__
        return view(dict(obj=view(v), sftable=view(tab)))
    return view(v)


def atoms_of(el):
    """(label, atom) for an element: itself, its first and last isotope, its first ion"""
    out = [("", el)]
    isos = el.isotopes
    for a in sorted(set(isos[:1] + isos[-1:])):
        out.append(("[%d]" % a, el[a]))
    if el.ions:
        out.append((".ion[%d]" % el.ions[0], el.ion[el.ions[0]]))
    return out


def child():
    order = json.load(sys.stdin)
    import periodictable as pt
    out = {}
    for z, attr in order:
        el = pt.elements[z]
        for label, atom in atoms_of(el):
            d = observe(atom, attr)
            out["%d%s.%s" % (z, label, attr)] = hashlib.sha1(json.dumps(d, sort_keys=True).encode()).hexdigest()[:16]
    json.dump(out, sys.stdout)


def run_child(order):
    repo = os.environ.get("VERIF_REPO", "/repo")
    env = dict(os.environ, PYTHONPATH=repo + os.pathsep + os.path.dirname(os.path.abspath(__file__)), PYTHONHASHSEED="0",
               PYTHONDONTWRITEBYTECODE="1")
    p = subprocess.run([sys.executable, os.path.abspath(__file__), "--child"], input=json.dumps(order), env=env,
                       stdout=subprocess.PIPE, stderr=subprocess.PIPE, text=True, timeout=1200, cwd="/")
    if p.returncode != 0:
        return dict(error=p.stderr[-600:])
    return json.loads(p.stdout)


def text(z, attr, syms):
    return "elements[%d].%s  (%s)" % (z, attr, syms.get(z, "?"))


def pair_check(first, then):
    """does reading `first` before `then` change what `then` serves, against reading `then` alone?"""
    alone = run_child([then])
    after = run_child([first, then])
    if "error" in alone or "error" in after:
        return None
    diff = [k for k in alone if alone[k] != after.get(k)]
    return diff


def main():
    if sys.argv[1] == "--child":
        return child()
    if sys.argv[1] == "--pair":
        first, then = json.loads(sys.argv[2])
        diff = pair_check(first, then)
        json.dump(dict(reproduced=bool(diff), differs=diff), sys.stdout)
        return
    seed, tier = int(sys.argv[1]), sys.argv[2]
    rng = random.Random(seed * 31 + 9)
    sys.path.insert(0, os.environ.get("VERIF_REPO", "/repo"))
    from periodictable import core
    zs = sorted(core.element_base)
    syms = {z: core.element_base[z][1] for z in zs}
    canonical = [(z, a) for z in zs for a in ATTRS]
    orders = {"canonical (Z ascending, attribute by attribute per element)": canonical,
              "Z descending": [(z, a) for z in reversed(zs) for a in ATTRS],
              "attribute by attribute, Z descending": [(z, a) for a in ATTRS for z in reversed(zs)]}
    for k in range(2 if tier == "quick" else 8):
        o = list(canonical)
        rng.shuffle(o)
        orders["random order %d" % k] = o
    res = {name: run_child(o) for name, o in orders.items()}
    fails, stats = [], dict(orders=len(orders), reads_per_order=0, atoms=0)
    can = res["canonical (Z ascending, attribute by attribute per element)"]
    if "error" in can:
        fails.append(dict(signature="C09:atom-order:raises", what="reading every lazy value in Z order raised: %s" % can["error"],
                          history=[], history_text=["canonical order"], outcomes=[]))
        json.dump(dict(direct_fails=fails, stats=stats), sys.stdout)
        return
    stats["reads_per_order"] = len(can)
    seen = set()
    for name, o in orders.items():
        r = res[name]
        if "error" in r:
            fails.append(dict(signature="C09:atom-order:raises", what="reading every lazy value in the order '%s' raised: %s" % (name, r["error"]),
                              history=[], history_text=[name], outcomes=[]))
            continue
        bad = [k for k in can if r.get(k) != can[k]]
        for k in bad[:3]:
            z = int(k.split(".")[0].split("[")[0])
            attr = k.rsplit(".", 1)[1]
            if attr in seen:
                continue
            seen.add(attr)
            # look for a single earlier read that is enough
            idx = o.index((z, attr))
            culprit = None
            for prev in reversed(o[:idx][-400:] if tier == "quick" else o[:idx]):
                if prev[1] != attr:
                    continue
                d = pair_check(prev, (z, attr))
                if d:
                    culprit = prev
                    break
            if culprit:
                what = ("after reading %s, %s (key %s) is served differently from what a fresh interpreter serves when it is read "
                        "first" % (text(culprit[0], culprit[1], syms), text(z, attr, syms), k))
                hist = [list(culprit), [z, attr]]
            else:
                what = ("in the order '%s', %s (key %s) is served differently from the canonical order" % (name, text(z, attr, syms), k))
                hist = [list(x) for x in o[:idx + 1]]
            fails.append(dict(signature="C09:atom-order:%s" % attr, what=what, history=hist,
                              history_text=[text(a, b, syms) for a, b in hist[-6:]], outcomes=[], pair=hist if culprit else None))
    json.dump(dict(direct_fails=fails, stats=stats), sys.stdout)


main()
