"""Canonical encoding of implementation observables as Coq terms of type Base.Py.pyval."""
import math

ERRS = [
    ("ParseErr", ("ParseException", "ParseBaseException", "ParseSyntaxException", "ParseFatalException")),
    ("ValueErr", ("ValueError",)),
    ("KeyErr", ("KeyError",)),
    ("TypeErr", ("TypeError",)),
    ("AttrErr", ("AttributeError",)),
    ("RuntimeErr", ("RuntimeError",)),
    ("ZeroDivErr", ("ZeroDivisionError",)),
    ("AssertErr", ("AssertionError",)),
    ("IndexErr", ("IndexError",)),
    ("RecursionErr", ("RecursionError",)),
]


def err_kind(exc):
    names = [c.__name__ for c in type(exc).__mro__]
    for kind, pynames in ERRS:
        if any(n in pynames for n in names[:1]):
            return kind
    for kind, pynames in ERRS:
        if any(n in pynames for n in names):
            return kind
    return "OtherErr"


def zlit(z):
    return "(%d)" % z if z < 0 else "%d" % z


def cstr(s):
    return '"' + s.replace('"', '""') + '"'


def enc_float(x):
    x = float(x)
    if math.isnan(x):
        return "PNaN"
    if math.isinf(x):
        return "(PInf %s)" % ("true" if x < 0 else "false")
    n, d = x.as_integer_ratio()
    e = -(d.bit_length() - 1)
    if e == 0 and n != 0:
        # strip trailing zero bits so literals stay small
        tz = (n & -n).bit_length() - 1
        n >>= tz
        e = tz
    return "(PF %s %s)" % (zlit(n), zlit(e))


def enc(v):
    """Python value -> Coq pyval term (numpy scalars are converted by the caller)."""
    if v is None:
        return "PNone"
    if isinstance(v, bool):
        return "(PB %s)" % ("true" if v else "false")
    if isinstance(v, int):
        return "(PI %s)" % zlit(v)
    if isinstance(v, float):
        return enc_float(v)
    if isinstance(v, str):
        return "(PS %s)" % cstr(v)
    if isinstance(v, BaseException):
        return "(PE %s)" % err_kind(v)
    if isinstance(v, (list, tuple)):
        return "(PL [%s])" % "; ".join(enc(x) for x in v)
    try:
        import numpy as np
        if isinstance(v, np.floating):
            return enc_float(float(v))
        if isinstance(v, np.integer):
            return "(PI %s)" % zlit(int(v))
        if isinstance(v, np.ndarray):
            return "(PL [%s])" % "; ".join(enc(x) for x in v.tolist())
        if isinstance(v, complex) or isinstance(v, np.complexfloating):
            return "(PL [%s; %s])" % (enc_float(v.real), enc_float(v.imag))
    except ImportError:
        pass
    if isinstance(v, complex):
        return "(PL [%s; %s])" % (enc_float(v.real), enc_float(v.imag))
    raise TypeError("cannot encode %r" % (v,))


def attempt(fn, *a, **kw):
    """Call fn, returning its value or the exception it raised."""
    try:
        return fn(*a, **kw)
    except RecursionError as e:
        return e
    except Exception as e:  # noqa
        return e
