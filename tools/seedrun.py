#!/usr/bin/env python3
"""Evaluate a seeded change: tools/seedrun.py <property> <dir with patch.diff and demo.py> [tier]

Creates a fresh scratch worktree of /repo, applies the patch there, confirms the demonstration
fails with it and passes without it and that the pinned test suite still passes, then runs
./check <property> <tier> from an isolated copy of /verif (VERIF_COPY, default /tmp/vseed) with
VERIF_REPO pointing at the patched worktree, and prints a JSON summary.  The scratch worktree is
removed afterwards.  /repo itself is never modified."""
import json, os, subprocess, sys, tempfile, shutil, time

PY = "/venv/bin/python"
COPY = os.environ.get("VERIF_COPY", "/tmp/vseed")


def sh(cmd, cwd=None, env=None, timeout=3600):
    p = subprocess.run(cmd, shell=True, cwd=cwd, env=env, stdout=subprocess.PIPE, stderr=subprocess.STDOUT, text=True,
                       timeout=timeout)
    return p.returncode, "\n".join(l for l in p.stdout.splitlines() if "conda.cli.condarc" not in l)


def main():
    prop, d = sys.argv[1], os.path.abspath(sys.argv[2])
    tier = sys.argv[3] if len(sys.argv) > 3 else "quick"
    wt = tempfile.mkdtemp(prefix="seedwt_", dir="/tmp")
    os.rmdir(wt)
    out = dict(property=prop, dir=d, tier=tier)
    try:
        rc, o = sh("git -C /repo worktree add -q %s HEAD" % wt)
        assert rc == 0, o
        env = dict(os.environ, PYTHONPATH=wt, PYTHONDONTWRITEBYTECODE="1")
        rc, o = sh("%s %s/demo.py" % (PY, d), cwd="/tmp", env=env)
        out["demo_clean_rc"] = rc
        rc, o = sh("git apply %s/patch.diff" % d, cwd=wt)
        if rc != 0:   # the repository moved on since the change was written: merge it
            rc, o = sh("git apply --3way %s/patch.diff" % d, cwd=wt)
            out["applied_3way"] = True
        out["apply_rc"] = rc
        if rc != 0:
            out["apply_out"] = o[-500:]
            return out
        rc, o = sh("%s %s/demo.py" % (PY, d), cwd="/tmp", env=env)
        out["demo_patched_rc"] = rc
        out["demo_patched_tail"] = o[-400:]
        rc, o = sh("%s -m pytest -q -p no:cacheprovider --timeout=900 -x 2>&1 | tail -3" % PY, cwd=wt)
        out["tests_tail"] = o[-200:]
        out["tests_pass"] = "42 passed" in o
        t0 = time.time()
        rc, o = sh("./check %s %s" % (prop, tier), cwd=COPY, env=dict(os.environ, VERIF_REPO=wt))
        out["check_rc"] = rc
        out["check_s"] = round(time.time() - t0, 1)
        lines = o.splitlines()
        out["check_lines"] = [l[:400] for l in lines if l.startswith("VIOLATION") or l.startswith("  ->") or l.startswith("KNOWN")][:12]
        out["check_last"] = lines[-1] if lines else ""
        out["caught"] = (rc == 1 and any(l.startswith("VIOLATION") for l in lines))
        out["caught_with_input"] = out["caught"] and any(l.startswith("VIOLATION") and "no-failing-input-found" not in l for l in lines)
        return out
    finally:
        sh("git -C /repo worktree remove --force %s" % wt)
        shutil.rmtree(wt, ignore_errors=True)


if __name__ == "__main__":
    print(json.dumps(main(), indent=1))
