#!/usr/bin/env python3
"""tools/seedkeep.py Cxx ... : copy confirmed seeded changes from /tmp/seed_Cxx/seeded/<n> and the
result of tools/seedrun.py (/tmp/seedres_Cxx_<n>.json) into /verif/seeded/Cxx-<n>/ (patch.diff, demo.py,
notes.md, meta.json)."""
import json, os, shutil, sys
ROOT = os.path.abspath(os.path.join(os.path.dirname(__file__), ".."))
for p in sys.argv[1:]:
    for n in range(1, 21):
        src = "/tmp/seed_%s/seeded/%d" % (p, n)
        res = "/tmp/seedres_%s_%d.json" % (p, n)
        if not (os.path.exists(src + "/patch.diff") and os.path.exists(res)):
            continue
        r = json.load(open(res))
        if not (r.get("demo_clean_rc") == 0 and r.get("demo_patched_rc") == 1 and r.get("tests_pass")):
            print("not confirmed, skipped:", p, n, {k: r.get(k) for k in ("demo_clean_rc", "demo_patched_rc", "tests_pass")})
            continue
        dst = os.path.join(ROOT, "seeded", "%s-%d" % (p, n))
        os.makedirs(dst, exist_ok=True)
        for f in ("patch.diff", "demo.py", "notes.md"):
            if os.path.exists(os.path.join(src, f)):
                shutil.copy(os.path.join(src, f), os.path.join(dst, f))
        notes = open(os.path.join(src, "notes.md")).read() if os.path.exists(os.path.join(src, "notes.md")) else ""
        meta = dict(property=p, breaks=p,
                    needs_to_manifest=notes.strip().split("\n\n")[0][:1500],
                    confirmed=dict(demo_passes_on_clean_tree=True, demo_fails_with_patch=True, test_suite_passes_with_patch=True,
                                   how="tools/seedrun.py: fresh scratch worktree of /repo HEAD, git apply patch.diff, demo.py, pytest (42 passed)"),
                    check=dict(command="VERIF_REPO=<patched worktree> ./check %s %s" % (p, r.get("tier")), exit_code=r.get("check_rc"),
                               caught=r.get("caught"), caught_with_failing_input=r.get("caught_with_input"), seconds=r.get("check_s"),
                               lines=r.get("check_lines")))
        json.dump(meta, open(os.path.join(dst, "meta.json"), "w"), indent=1)
        print("kept", dst, "caught" if r.get("caught_with_input") else "caught(no input)" if r.get("caught") else "MISSED")
