"""C20 — ancillary tables are served to exactly the element or ion they belong to."""
import re
import vlib

PRE = """From Coq Require Import ZArith QArith String List.
From PT Require Import Str Dec Py Loaders Ancillary C20Check.
Import ListNotations.
Open Scope string_scope."""
CT = "string * list Z * list pyval"
PRE_FF = """From Coq Require Import ZArith QArith String List.
From PT Require Import Str Dec Py Loaders Ancillary C20Check C20FF.
Import ListNotations.
Open Scope string_scope."""

MANIFEST = dict(
    text=("Theorems (Props/C20.v, all closed under the global context), about the Gallina transcriptions of the five "
          "loaders (Model/Ancillary.v) run on the table text regenerated from /repo, each compared with a naive second "
          "reading of the same text: every numbered Cordero row lands on its own Z with its radius and uncertainty "
          "digits, alternate ('-') spin-state rows never change the table (generic) and every group serves its first "
          "row, elements without a row get None; element Z gets slot Z of crystal_structures and AttributeError past "
          "its end; K_alpha/K_beta1 are those of the row carrying the element's symbol, no attribute otherwise; for ALL "
          "(Z, charge, set) the magnetic coefficients are those of the CrysFML statement whose label spells that "
          "element and charge, nothing otherwise, always seven numbers; every <j0> sums to within 0.5% of 1 at Q=0; "
          "<jn>(0)=0 and <j0>(0)=A+B+C+D for every coefficient tuple and every exponential with ex(0)=1 (generic); "
          "for ALL symbols the positional Cromer-Mann reader serves the values under the labels a1..a5 c b1..b5 of the "
          "symbol's own #L line, KeyError otherwise; element/ion (Z, c) is served the row headed Z with charge suffix c; "
          "c + sum a_i is within 0.05 of Z - charge.  Advisory: the dipole sets J are 1 at Q=0 except Nd2+ (1.0138) and "
          "Dy3+ (1.1317), proved with the witness.  Real-valued part (standard axioms of Coq's reals only): the interval "
          "evaluators of the form factors (Model/C20FF.v, Coq-Interval at 50 bits) enclose, for every coefficient list and "
          "every Q, A exp(-a s^2)+B exp(-b s^2)+C exp(-c s^2)+D, s^2 times that, and c+sum a_i exp(-b_i s^2) with "
          "s=Q/4pi; the acceptance rule is sound.  Tie: exhaustive correspondence, public + private table: 119 elements "
          "x (radius, uncertainty, structure, K_alpha, K_beta1, magnetic_ff with all 98 charge states x 5 sets + M and "
          "the six form factors at Q=0), 330+ getCMformula symbols (211 listed + unlisted), f0(0) of all 618 "
          "elements/ions per table, bit-exact for table reads; every magnetic set and every Cromer-Mann species at "
          "Q in {1,7,30} (quick) / {0..30, 1/8, 239/8} (thorough) against the enclosure computed inside Coq, within "
          "2^-30 of the sum of magnitudes.  Independently, form factors on Q in [0,30] (31 points quick, 241 thorough) "
          "are compared with the formula recomputed with math.exp from a third reading of the text."),
    note=("Modelled not verified: Python float(), str.split/strip/capitalize, eval of the Fortran call text, dict order, "
          "numpy exp/sum/dot.  Q is sent as an exact rational; the implementation uses the double nearest to pi."),
    technique=("Coq proof by kernel-evaluated sweep over regenerated tables against an independent re-reading + generic "
               "lemmas; exhaustive model/implementation correspondence; third-reading direct evaluation of the property"),
    ref="DESIGN.md section 7 C20")

SIZE_NAMES = ["radii", "structure_slots", "emission_rows", "magnetic_elements", "magnetic_charge_states", "cromer_mann"]


def explained(m, direct):
    """Is there a failing input of the property at the place where model and implementation disagree?"""
    table, kind = m[0], m[1]
    if kind in ("el", "f0"):
        return any(d["table"] == table and d.get("atom") == m[3] for d in direct)
    return any(d["kind"] in ("cromermann", "f0") for d in direct)


def run(ctx):
    proved = vlib.prove(ctx)
    data = vlib.run_harness("c20.py", args=[ctx.tier])
    cases, meta, counts = data["cases"], data["meta"], data["counts"]
    ctx.cov["rule"] = ("exhaustive: every element of the public table and of a freshly initialised private table x "
                       "(covalent_radius, covalent_radius_uncertainty, crystal_structure, K_alpha, K_beta1, magnetic_ff: "
                       "every charge state x j0,j2,j4,j6,J,M and their form factors at Q=0); getCMformula on every listed "
                       "symbol and on every element/ion spelling that is not listed; xray.f0(0) of every element and ion; "
                       "fxrayatq on bare-sign spellings.  Oracle = Gallina loader models on the regenerated text.  "
                       "Non-trivial = distinct cases.  Direct: form factors on %d Q points in [%g, %g] vs a third reading."
                       % (data["qgrid"][2], data["qgrid"][0], data["qgrid"][1]))
    ctx.cov["exhaustive"] = True
    ctx.cov["counts"] = counts
    ctx.cov["samples"] = [dict(meta=m, case=c[:400]) for m, c in list(zip(meta, cases))[26:29]]
    ctx.assumptions = ["Python float() is correctly rounded (bit-exact comparison of table reads)",
                       "float sums at Q=0 within 2^-40 of the sum of magnitudes",
                       "Q-grid form factors: relative 1e-11 of the sum of magnitudes against math.exp",
                       "Coq-Interval (FloatIntervalFull over StdZRadix2, 50 bits) and its *_correct lemmas for the "
                       "enclosures of exp, pi, +, *, /; acceptance within 2^-30 of the sum of magnitudes"]
    fails = []
    if proved:
        n_ok, fails, logs, extra = vlib.run_shards("C20", PRE, CT, cases, "check_all",
                                                   extra_eval="Eval vm_compute in model_sizes.")
        for l in logs:
            ctx.note(l)
        ctx.cov["evaluations"] = len(cases)
        ctx.cov["distinct_nontrivial"] = len(set(cases))
        ctx.cov["model_agreed"] = n_ok
        sizes = [int(x) for x in re.findall(r"(\d+)%N", extra[0].split("OK ")[-1])] if extra else []
        want = [counts[k] for k in SIZE_NAMES]
        if sizes != want:
            ctx.report("C20:table-sizes", "the model loads %s, the implementation serves %s (%s)"
                       % (sizes, want, ", ".join(SIZE_NAMES)),
                       dict(obligation="correspondence: sizes of the five tables"), found_input=False)
        # the form factors at Q > 0: rigorous enclosures computed by the Coq model (Coq-Interval) vs the doubles served
        ffc, ffm = data["ff_cases"], data["ff_meta"]
        with vlib.Lock():
            ok, log = vlib.make(["Model/C20FF.vo"], timeout=900)
        if not ok:
            ctx.report("C20:formfactor-model", "Model/C20FF.v does not build: %s" % log[-400:],
                       dict(obligation="build of the interval form-factor model"), found_input=False)
        else:
            n2, fails2, logs2, _ = vlib.run_shards("C20FF", PRE_FF, CT, ffc, "check_ff_all", shard=250)
            for l in logs2:
                ctx.note(l)
            ctx.cov["evaluations"] += len(ffc)
            ctx.cov["distinct_nontrivial"] += len(ffc)
            ctx.cov["formfactor_enclosures"] = dict(cases=len(ffc), before_dedup=data["ff_total"], agreed=n2,
                                                    Q=data["coq_qgrid"], rule="|enclosure - double| <= 2^-30 * sum of magnitudes")
            ctx.cov["model_agreed"] += n2
            unexplained = [ffm[i] for i in fails2
                           if not any(d.get("atom") == ffm[i][3] and d["kind"] in ("formfactor", "f0", "magnetic_ff", "cromermann")
                                      for d in data["direct_fails"])]
            for m in [ffm[i] for i in fails2][:8]:
                ctx.note("form factor: enclosure and implementation disagree on %s" % (m,))
            if unexplained:
                ctx.report("C20:formfactor-correspondence", "the interval model of the form factors and the implementation "
                           "disagree on %d cases (first %s) and the third reading found no failing input there"
                           % (len(unexplained), unexplained[0]),
                           dict(obligation="correspondence C20 form factors (Model/C20FF.v)", cases=[dict(meta=m) for m in unexplained[:10]]),
                           found_input=False)
        ctx.note("advisory (outside the <j0> clause): dipole sets J of Nd2+ and Dy3+ evaluate to 1.0138 and 1.1317 at Q=0 "
                 "(CrysFML data; theorem C20_J_at_zero_outlier)")
    else:
        kind, msg = ctx.broken
        ctx.note("%s broke: %s" % (kind, msg))
    direct = data["direct_fails"]
    seen = set()
    for d in direct:
        if d["signature"] in seen:
            continue
        seen.add(d["signature"])
        ctx.report(d["signature"], d["what"],
                   dict(input=d, how="PYTHONPATH=/repo python: inspect %s on the %s table" % (d["key"], d["table"])))
    if fails:
        diags = vlib.run_diag("C20", PRE, CT, [cases[i] for i in fails[:8]], "diag_all")
        for i, dg in zip(fails[:8], diags):
            ctx.note("model/implementation disagree on %s: %s" % (meta[i], dg[:300]))
        unexplained = [meta[i] for i in fails if not explained(meta[i], direct)]
        if unexplained:
            ctx.report("C20:correspondence", "loader models and implementation disagree on %d cases (first %s: %s) and the "
                       "third reading of the table text found no failing input there"
                       % (len(unexplained), unexplained[0], diags[0][:200] if diags else "?"),
                       dict(obligation="correspondence C20 (Model/Ancillary.v vs covalent_radius/crystal_structure/xsf/"
                                       "magnetic_ff/cromermann)", cases=[dict(meta=m) for m in unexplained[:10]]),
                       found_input=False)
    if not proved and not direct:
        kind, msg = ctx.broken
        ctx.report("C20:" + kind, "%s no longer checks: %s" % (kind, msg), dict(obligation=kind, detail=msg), found_input=False)


def replay(path):
    import json
    doc = json.load(open(path))
    tier = doc.get("tier", "quick")
    data = vlib.run_harness("c20.py", args=[tier])
    sig = doc.get("signature")
    hit = [d for d in data["direct_fails"] if d["signature"] == sig]
    if hit:
        print("REPRODUCED: %s" % hit[0]["what"])
        return 1
    print("not reproduced on the current tree")
    return 0
