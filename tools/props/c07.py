"""C07 — neutron data of every element and isotope are those of the embedded table."""
import re
import vlib

PRE = """From Coq Require Import ZArith QArith String List.
From PT Require Import Str Dec Py Loaders Nsf C07Check.
Import ListNotations."""
CT = "c07case"

MANIFEST = dict(
    text=("Theorems (Props/C07.v, closed under the global context), about the Gallina transcription of nsf.init / "
          "fix_number / energy_dependent_init run on the table text regenerated from /repo: the table loads (every row "
          "accepted, the two assertions of nsf.init hold); for every row the atom it names serves that row's cells as "
          "re-read independently (b_c, b+, b-, coherent, incoherent, total, absorption, abundance-or-half-life, spin, "
          "energy flag, imaginary lengths; Xe total and Eu-151 b_c are the two documented gap fills); for any text, "
          "fix_number ignores '<' and '*', reads a blank as missing and returns the number before '(' ; any accepted "
          "row yields b_c_complex = b_c - i*absorption/(2000*1.798) (identity in Q); single-isotope elements share "
          "their isotope's record; atoms of unmentioned elements serve the default record (no SLD); numpy.interp on "
          "any strictly increasing table returns the tabulated value at every node, the 14 tables are strictly "
          "increasing and every tabulated energy returns exactly the tabulated complex length; every record of the "
          "loaded table (the gap-filled Eu-151 one included) has b_c_complex with real part b_c and imaginary part "
          "-absorption/(2000*1.798).  One full-strength statement is refuted by the faithful model, with witness: "
          "Pu/Cm (several isotope rows, no element row) serve their first isotope's record (known finding).  "
          "Tie: exhaustive correspondence - every element and isotope (3 059 atoms) x 16 observables and all 748 "
          "nodes of the 14 energy tables through scattering_by_wavelength, public and private table, bit-exact for "
          "table reads, 2^-40 for computed values.  Failing inputs are found by an independent third reading of the "
          "table text in Python."),
    note="Modelled not verified: Python float(), str.split/replace, numpy.interp (linear search on an increasing "
         "abscissa; the model's abscissa is 1/E, increasing with wavelength; only node queries are claimed), "
         "object sharing between an element and its sole isotope. Mass is assumed known for every element "
         "(C06), so _number_density is None exactly when the density is unknown.",
    technique="Coq proof: generic lemmas (fix_number, b_c_complex identity, interpolation at nodes by induction) + "
              "kernel-evaluated sweeps over the regenerated tables; exhaustive model/implementation correspondence",
    ref="DESIGN.md section 7 C07")


def run(ctx):
    proved = vlib.prove(ctx)
    data = vlib.run_harness("c07.py")
    cases, meta = data["cases"], data["meta"]
    ctx.cov["rule"] = ("exhaustive: every element and isotope of the public table and of a freshly initialised private "
                       "table x (b_c, bp, bm, b_c_i, bp_i, bm_i, coherent, incoherent, total, absorption, abundance, "
                       "nuclear_spin, is_energy_dependent, b_c_complex, has_sld(), nsf_table present); every node of "
                       "every energy-dependent table via scattering_by_wavelength(neutron_wavelength(1000 E)); number of "
                       "atoms holding a record; non-trivial = the atom holds a record or the case is a node; oracle = "
                       "Gallina loader model run on the regenerated table text")
    ctx.cov["exhaustive"] = True
    ctx.cov["rows"] = dict(neutron_table=data["rows"][0], imaginary_table=data["rows"][1], energy_tables=data["rows"][2],
                           nodes_per_table=data["nodes"], record_holders_per_table=data["records"])
    ctx.cov["samples"] = [dict(meta=m, case=c) for m, c in list(zip(meta, cases))[3:6]]
    ctx.assumptions = ["Python float() is correctly rounded (R0)", "tolerance 2^-40 relative for computed values (R2)",
                       "pi enclosed to 24 digits for the one sqrt the loader takes (Eu-151 b_c)"]
    for t, ok in zip(("public", "private"), data.get("lu_natural_ok", [])):
        if not ok:
            ctx.note("advisory (outside the property): natural Lu of the %s table is not the abundance mixture of "
                     "Lu-175 and Lu-176 at the Lu-176 nodes" % t)
    fails = []
    if proved:
        n_ok, fails, logs, extra = vlib.run_shards("C07", PRE, CT, cases, "check_all",
                                                   extra_eval="Eval vm_compute in (model_records, model_nodes).")
        for l in logs:
            ctx.note(l)
        ctx.cov["evaluations"] = len(cases)
        ctx.cov["distinct_nontrivial"] = sum(1 for m, c in zip(meta, cases) if m[1] == "node" or "PNone; PNone; PNone; PNone; PNone; PNone; PNone; PNone; PNone; PNone" not in c)
        ctx.cov["model_agreed"] = n_ok
        mk = re.search(r"=\s*\((\d+)%N,\s*(\d+)%N\)", extra[0]) if extra else None
        if not mk:
            ctx.report("C07:model-counts", "the model did not report its record and node counts",
                       dict(obligation="correspondence: exhaustiveness cross-check"), found_input=False)
        else:
            mrec, mnodes = int(mk.group(1)), int(mk.group(2))
            ctx.cov["model_records"], ctx.cov["model_nodes"] = mrec, mnodes
            if any(r != mrec for r in data["records"]) or any(n != mnodes for n in data["nodes"]):
                ctx.report("C07:atom-set", "the model holds %d records and %d nodes, the implementation's tables hold %s and %s"
                           % (mrec, mnodes, data["records"], data["nodes"]),
                           dict(obligation="correspondence: set of atoms / nodes"), found_input=False)
    else:
        kind, msg = ctx.broken
        ctx.note("%s broke: %s" % (kind, msg))
    direct = data["direct_fails"]
    # every failing input of the property found on the implementation is reported
    seen = set()
    for d in direct:
        if d["signature"] in seen:
            continue
        seen.add(d["signature"])
        if not d.get("found", True):
            ctx.report(d["signature"], d["what"], dict(obligation="direct re-reading of the table text", detail=d),
                       found_input=False)
            continue
        ctx.report(d["signature"], d["what"],
                   dict(input=d, how="PYTHONPATH=/repo /venv/bin/python -c 'import periodictable as pt; "
                                     "print(pt.<atom>.neutron.<field>)' on atom %s (%s table)" % (d.get("atom"), d["table"])))
    if fails:
        diags = vlib.run_diag("C07", PRE, CT, [cases[i] for i in fails[:8]], "diag_all")
        for i, dg in zip(fails[:8], diags):
            ctx.note("model/implementation disagree on %s: %s" % (meta[i], dg))
        unexplained = []
        for i in fails:
            m = meta[i]
            if m[1] == "count":
                hit = [d for d in direct if d["table"] == m[0]]
            else:
                hit = [d for d in direct if d["table"] == m[0] and d.get("z") == m[2] and d.get("a") in (m[3], None)]
                # an element sharing the record of its isotope is explained by a finding on that isotope
                if not hit and m[3] == 0:
                    hit = [d for d in direct if d["table"] == m[0] and d.get("z") == m[2]]
            if not hit:
                unexplained.append(m)
        if unexplained:
            ctx.report("C07:correspondence", "loader model and implementation disagree on %d cases (first %s) and the "
                       "direct re-reading of the table found no failing input there" % (len(unexplained), unexplained[0]),
                       dict(obligation="correspondence C07 (Model/Nsf.v vs periodictable.nsf)",
                            cases=[dict(meta=m) for m in unexplained[:10]]), found_input=False)
    if not proved and not [d for d in direct if d.get("found", True)]:
        kind, msg = ctx.broken
        ctx.report("C07:" + kind, "%s no longer checks: %s" % (kind, msg), dict(obligation=kind, detail=msg), found_input=False)
    if ctx.tier == "thorough" and proved:
        # the pi enclosure behind the Eu-151 comparison rule (Reals + Coq-Interval; kept out of the quick path)
        with vlib.Lock():
            ok_pi, log_pi = vlib.make(["Proofs/C07Pi.vo"], timeout=900)
        ctx.cov["pi_enclosure"] = "proved (Proofs/C07Pi.v: Q2R pi_lo < PI < Q2R pi_hi)" if ok_pi else log_pi[-300:]
        if not ok_pi:
            ctx.report("C07:pi-enclosure", "Proofs/C07Pi.v no longer checks: %s" % log_pi[-300:],
                       dict(obligation="pi enclosure"), found_input=False)
        rc, out = vlib.sh("timeout 1500 coqchk -silent -o -Q . PT PT.Props.C07", cwd=vlib.COQ, timeout=1600)
        ok = rc == 0 and "Axioms: <none>" in re.sub(r"\s+", " ", out)
        ctx.cov["coqchk"] = "ok, no axioms" if ok else out[-400:]
        if not ok:
            ctx.report("C07:coqchk", "coqchk does not accept Props/C07.vo axiom-free: %s" % out[-300:],
                       dict(obligation="coqchk"), found_input=False)


def replay(path):
    import json
    doc = json.load(open(path))
    data = vlib.run_harness("c07.py")
    sig = doc.get("signature")
    hit = [d for d in data["direct_fails"] if d["signature"] == sig]
    if hit:
        print("REPRODUCED: %s" % hit[0]["what"])
        return 1
    print("not reproduced on the current tree")
    return 0
