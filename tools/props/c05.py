"""C05 — x-ray scattering factors, SLD, refraction, reflectivity and f0 follow the tables and the documented equations."""
import json, re
import vlib

PRE = """From Coq Require Import ZArith QArith String List.
From PT Require Import Str Dec Py Loaders Formula C05Check.
Import ListNotations."""
CT = "c05case"

MANIFEST = dict(
    text=("Theorems (Props/C05.v). Over Q, closed under the global context: for ANY table with strictly increasing "
          "abscissae numpy.interp(left=nan, right=nan) as transcribed returns the tabulated value at a node, the straight "
          "line between neighbouring rows (which stays between their values), NaN when a neighbour is the -9999 marker, NaN "
          "outside the range, the upper value at a repeated abscissa, and answers vectors element by element; "
          "xray_energy(xray_wavelength(x)) == x; the SLD is linear in the density for every compound, energy and factor; "
          "with a natural density it equals r_e N_A 1e-8 rho_nat/m_nat sum n f, hence is the same for any two compounds that "
          "differ only in the isotopes present (given that every atom has its element's table). Kernel-evaluated sweeps over the "
          "92 regenerated .nff files: all load, cover 10 eV..30 keV, have f2 > 0, H..U and nothing else have a file, and all but "
          "si.nff have strictly increasing energies; nff_sorted_refuted exhibits si.nff data rows 580/581; "
          "isotope_ion_table_refuted exhibits D+ (no d.nff) against H+. Sweeps over f0_WaasKirf.dat: every one of the 211 "
          "entries, and every atom/ion of the table that has coefficients, has sum a_i + c within 0.05 of Z - charge; NaN "
          "beyond the binary64 range test, whose boundary is located. Over R (classical reals of the standard library): the "
          "f0 expression means sum a_i exp(-b_i (Q/4pi)^2) + c and tends to sum a_i + c as Q -> 0; the refraction expression "
          "is 1 - lambda^2/(2 pi)(rho + i irho)1e-6; |(ki-kf)/(ki+kf) exp(-2 ki kf s^2)|^2 lies in [0,1] for ki >= 0, Re kf >= 0, "
          "the model expression is that modulus (principal square root written in parts, proved to be a square root) and lies in "
          "[0,1] for every wavelength > 0, index, angle in [0, pi] and roughness. "
          "Tie: the Gallina reader/interpolation/SLD model is run inside coqc on the regenerated table text beside the real "
          "library: table rows and nodes bit-exact, energy<->wavelength conversions bit-exact in binary64, interpolated values and "
          "SLDs within 2^-40 of the magnitude of their terms, f0 / refraction / reflectivity against an interval enclosure "
          "(Coq-Interval, 64-80 bits) with 2^-30. The property's own statements are also evaluated on the implementation "
          "against a trivial third reading of the .nff / f0 text (direct failing inputs)."),
    note=("Modelled not verified: numpy.loadtxt, numpy.interp's search (transcribed as 'last j with xp[j] <= x', which is what "
          "its bisection returns on non-decreasing abscissae), numpy broadcasting, libm exp/sin/cos/sqrt, complex sqrt branch. "
          "The out-of-order window of si.nff is excluded from the interpolation stream and reported separately. A numeric "
          "change of an f1/f2 cell that keeps the table well-formed is by construction not a violation (the table is the reference)."),
    technique=("Coq proof: generic lemmas by induction over sorted lists, field identities, real analysis on pairs; "
               "kernel-evaluated sweeps over regenerated tables; model/implementation correspondence by vm_compute with exact "
               "rationals and rigorous interval enclosures"),
    ref="DESIGN.md section 7 C05")

CLASS = {
    "element": ("C05:interp:", "C05:file:", "C05:outside:", "C05:scalar-vector:", "C05:energy-wavelength:", "C05:xray_wavelength",
                "C05:energy-wavelength-roundtrip"),
    "no-table": (),
    "compounds": ("C05:sld-", "C05:density-linearity", "C05:isotope-", "C05:refraction-formula", "C05:reflectivity-range",
                  "C05:xray_sld-raises", "C05:interp:", "C05:outside:", "C05:xray_wavelength", "C05:energy-wavelength"),
    "f0": ("C05:f0-",),
    "conversion": ("C05:xray_wavelength", "C05:energy-wavelength-roundtrip"),
    "pi": (),
}


def weight(m):
    k = m["kind"]
    if k == "element":
        return 20 + m.get("queries", 1) * 0.12
    if k == "compounds":
        return 60 + m.get("queries", 1) * 0.25
    if k == "f0":
        return 0.5
    return 0.1


def balance(cases, meta, nb):
    """deal the cases into nb equal-sized buckets of similar cost; returns (ordered cases, original index or None)"""
    order = sorted(range(len(cases)), key=lambda i: -weight(meta[i]))
    buckets = [[] for _ in range(nb)]
    load = [0.0] * nb
    for i in order:
        b = min(range(nb), key=lambda j: (load[j], len(buckets[j])))
        buckets[b].append(i)
        load[b] += weight(meta[i])
    size = max(len(b) for b in buckets)
    pad = "(CPi (PF 884279719003555 (-48)))"
    out, idx = [], []
    for b in buckets:
        for i in b:
            out.append(cases[i])
            idx.append(i)
        for _ in range(size - len(b)):
            out.append(pad)
            idx.append(None)
    return out, idx, size


def run(ctx):
    proved = vlib.prove(ctx, timeout=2400)
    data = vlib.run_harness("c05.py", [ctx.tier, ctx.seed])
    cases, meta, st = data["cases"], data["meta"], data["stats"]
    ctx.cov["rule"] = ("elements with a table (12 per quick run rotating with the seed, all 92 in thorough; each with one ion, one "
                       "isotope, one isotope ion) x sftable shape and sampled rows, scattering_factors(energy=) at nodes (incl. both "
                       "end nodes, the NaN/non-NaN boundary, both sides of every absorption edge), mid-segment and random interior "
                       "points, one ulp either side of nodes, outside the range; wavelength= strictly inside; unsorted / sorted / "
                       "long vectors; xray.sld; atoms without a table; compounds over those elements (isotopes, ions, nested, "
                       "density or natural_density) x xray_sld energy/wavelength/vector, index_of_refraction, mirror_reflectivity on "
                       "an angle x roughness grid; xray.f0 for every element and every listed ion of the table x Q grid incl. 24 pi "
                       "and its successor; xray_wavelength/xray_energy bit-exact. non-trivial = everything but the padding cases; "
                       "oracle = Gallina model run on the regenerated .nff / f0 text")
    ctx.cov["exhaustive"] = ctx.tier == "thorough"
    ctx.cov["streams"] = st
    ctx.cov["samples"] = [dict(meta={k: v for k, v in m.items() if k != "compounds"}, case=c[:400]) for m, c in
                          [(meta[i], cases[i]) for i in (0, len(cases) // 2, len(cases) - 3)]]
    ctx.assumptions = ["binary64 +,-,*,/ and float(text) are correctly rounded (bit-exact comparisons)",
                       "2^-40 of the magnitude of the terms for interpolated values and SLDs",
                       "2^-30 against a rigorous interval enclosure for f0, refraction (plus 2^-50 for the subtraction from 1) and "
                       "reflectivity (relative to |r|)"]
    direct = data["direct_fails"]
    fails, idx = [], []
    if proved:
        nb = 8 if ctx.tier == "quick" else 16
        ordered, idx, size = balance(cases, meta, nb)
        n_ok, bad, logs, _ = vlib.run_shards("C05", PRE, CT, ordered, "check_all", shard=size, timeout=2400)
        for l in logs:
            ctx.note(l)
        npad = sum(1 for i in idx if i is None)
        fails = sorted(set(idx[j] for j in bad if idx[j] is not None))
        padfail = [j for j in bad if idx[j] is None]
        ctx.cov["evaluations"] = sum(m.get("queries", 1) for m in meta)
        ctx.cov["cases"] = len(cases)
        ctx.cov["distinct_nontrivial"] = len(set(cases))
        ctx.cov["model_agreed"] = n_ok - (npad - len(padfail))
        if padfail and not fails:
            ctx.report("C05:shards", "a shard of the correspondence run did not evaluate", dict(obligation="correspondence run",
                       detail=logs[:3]), found_input=False)
    else:
        kind, msg = ctx.broken
        ctx.note("%s broke: %s" % (kind, msg))
    # every failing input of the property found on the implementation is reported (a few per class)
    per_class = {}
    for d in direct:
        cls = re.sub(r"[:@][^:@]*$", "", d["signature"]) if d["signature"].count(":") > 1 else d["signature"]
        per_class[cls] = per_class.get(cls, 0) + 1
        if per_class[cls] > 2:
            continue
        ctx.report(d["signature"], d["what"], dict(input=d.get("input"), how="cd / && PYTHONPATH=%s /venv/bin/python, "
                                                   "import periodictable, periodictable.xsf; call as quoted" % vlib.REPO))
    if per_class:
        ctx.cov["direct_failing_inputs"] = per_class
    if fails:
        sub = fails[:8]
        diags = vlib.run_diag("C05", PRE, CT, [cases[i] for i in sub], "diag_all", timeout=1200)
        unexplained = []
        for i, dg in zip(sub, diags):
            ctx.note("model/implementation disagree on %s (%s): %s" % (meta[i]["kind"], meta[i].get("atom") or
                                                                       meta[i].get("elements") or meta[i].get("x"), dg))
        for i in fails:
            pre = CLASS.get(meta[i]["kind"], ())
            if not any(d["signature"].startswith(p) for d in direct for p in pre):
                unexplained.append(i)
        if unexplained:
            ctx.report("C05:correspondence", "model and implementation disagree on %d cases (first: %s %s) and the direct "
                       "statements found no failing input of that kind" % (len(unexplained), meta[unexplained[0]]["kind"],
                                                                           meta[unexplained[0]].get("atom") or meta[unexplained[0]].get("elements")),
                       dict(obligation="correspondence C05 (Model/Xsf.v, Model/XsfReal.v vs periodictable.xsf / cromermann)",
                            cases=[{k: v for k, v in meta[i].items() if k != "compounds"} for i in unexplained[:10]]),
                       found_input=False)
    if not proved and not direct:
        kind, msg = ctx.broken
        ctx.report("C05:" + kind, "%s no longer checks: %s" % (kind, msg), dict(obligation=kind, detail=msg), found_input=False)
    elif not proved:
        # a broken obligation that the known failing inputs do not account for is still reported
        kind, msg = ctx.broken
        known = all(ctx.signature_known(d["signature"]) for d in direct)
        if known:
            ctx.report("C05:" + kind, "%s no longer checks: %s" % (kind, msg), dict(obligation=kind, detail=msg), found_input=False)
    if ctx.tier == "thorough" and proved:
        # coqchk re-checks the generic proofs (Q and R layers); the kernel-evaluated sweeps over the 92 tables are
        # vm_compute proofs that coqchk's evaluator would need hours for, so they are not re-checked here
        rc, out = vlib.sh("timeout 1800 coqchk -silent -o -Q . PT PT.Proofs.C05Interp PT.Proofs.C05Real", cwd=vlib.COQ,
                          timeout=1900)
        flat = re.sub(r"\s+", " ", out)
        ok = rc == 0 and "type-in-type: <none>" in flat and "unsafe (co)fixpoints: <none>" in flat
        ctx.cov["coqchk"] = ("ok on Proofs/C05Interp (no axioms) and Proofs/C05Real (classical reals, functional "
                             "extensionality); sweeps not re-checked by coqchk") if ok else out[-400:]
        if not ok:
            ctx.report("C05:coqchk", "coqchk does not accept Proofs/C05Interp.vo, Proofs/C05Real.vo: %s" % out[-300:],
                       dict(obligation="coqchk"), found_input=False)


def replay(path):
    doc = json.load(open(path))
    data = vlib.run_harness("c05.py", [doc.get("tier", "quick"), doc.get("seed", 0)])
    sig = doc.get("signature")
    hit = [d for d in data["direct_fails"] if d["signature"] == sig]
    if hit:
        print("REPRODUCED: %s" % hit[0]["what"])
        return 1
    print("not reproduced on the current tree")
    return 0
