"""C08 — atoms are unique per table and every lookup route returns the same object."""
import json, re
import vlib

PRE = """From Coq Require Import ZArith NArith String List.
From PT Require Import Str Py Core C08Check.
Import ListNotations."""
CT = "list (gop N) * list obs"

MANIFEST = dict(
    text=("Theorems (Props/C08.v, closed under the global context) about the object-identity machine Model/Core.v, a "
          "transcription of PeriodicTable.__init__/__getitem__/__iter__/symbol/name/isotope (string splitting, int() "
          "failure, D/T), IonSet.__getitem__, Element.add_isotope/__getitem__/__iter__, the three __reduce__ (with the Ion "
          "try/except fallback) and four _make_*, change_table, define_elements and mass.init's add_isotope calls, on one "
          "public and one private table: the invariant (heap and the caches _element/_isotopes/ionset are inverse "
          "bijections; table and module attributes name objects whose symbol/name is the attribute) holds initially for "
          "the regenerated element_base with ANY isotope rows, is kept by every operation, hence by every operation "
          "sequence (induction over the list); every live object has exactly one key and its table, number, isotope "
          "number and charge are that key; two objects with one key are one object; two successful lookups anywhere in "
          "a history that return the same key return the same object; a lookup repeated at any later time returns the "
          "same object and changes nothing; pickle/deepcopy (Make(Reduce x)) is the identity on every live atom; ions "
          "and isotopes are created at most once; iteration is strictly increasing in Z / A, without repetition, and "
          "visits exactly the objects of the table / element (proved for the model's insertion sort); unknown numbers, "
          "symbols, names, module attributes, missing isotopes, charges outside the element's ion list and the "
          "malformed strings '1-2-H', '4-D', 'x-H' raise (KeyError/ValueError/AttributeError as the code does) and "
          "leave the state unchanged; change_table returns the object with the same Z, A, charge in the target table; "
          "kernel-evaluated sweeps: Z 0..118 once each, symbols and names unique and disjoint, no symbol 'D'/'T'/'', and "
          "every element_base row and every isotope row of the regenerated mass table resolves by every route in both "
          "tables to the one object with that number; an accepted string with an isotope part ('A-Sym') returns the isotope "
          "with that number and '0-Sym' raises ValueError (C08_iso_string_with_number, C08_zero_iso_string_raises; the "
          "earlier refutation isotope('0-H') -> element was repaired in /repo 0de6618).  Tie: exhaustive "
          "sweep on the library of all 119 elements, 2940 isotopes, 499 element ions, 14207 isotope ions x 2 tables "
          "(is-identity of every route, attributes, pickle, deepcopy, change_table both ways, iteration order, ~77000 "
          "invalid neighbours), plus one systematic operation sequence per element and table and random sequences, each "
          "from a freshly forked library state, compared outcome by outcome with the model (identity classes must be "
          "the same partition, attributes and error kinds equal)."),
    note=("Modelled not verified: CPython id()/dict/pickle/copy protocols, hasattr/getattr on the table object (its "
          "non-atom attributes behave as absent), int() on ASCII text.  isotope strings are restricted to printable ASCII."),
    technique=("Coq proof: state-machine invariant by induction over operation lists, kernel-evaluated sweeps over the "
               "regenerated tables; exhaustive enumeration on the implementation + differential run of the machine model"),
    ref="DESIGN.md section 7 C08")


def params(ctx):
    return (60, 30) if ctx.tier == "quick" else (400, 300)


def run(ctx):
    proved = vlib.prove(ctx)
    nseq, maxlen = params(ctx)
    data = vlib.run_harness("c08.py", [ctx.seed, ctx.tier, nseq, maxlen], timeout=3000)
    cases, meta, counts, stats = data["cases"], data["meta"], data["counts"], data["stats"]
    ctx.cov["exhaustive"] = True
    ctx.cov["rule"] = (
        "(a) exhaustive on the implementation, both tables: %(elements)d elements, %(isotopes)d isotopes, "
        "%(element_ions)d element ions, %(isotope_ions)d isotope ions; %(route_checks)d identity/attribute checks "
        "(table[Z], symbol, name, isotope string, table attribute, module attribute, element[A], add_isotope, .ion[q] "
        "twice and through the ion, pickle, deepcopy, change_table, iteration) and %(invalid_keys)d invalid neighbours "
        "(Z -1/119.., wrong-case / extended / truncated symbols and names, A outside and in the gaps of the isotope list, "
        "'0-Sym', 'x-Sym', '1-2-Sym', '4-D', charges -6..9 not in ions incl. 0); " % counts +
        "(b) %d systematic sequences (every element x table: all routes, all isotopes, all element ions, %s isotope ions) "
        "and %d random sequences (3..%d operations) = %d operations, %d with error outcomes, each from a fresh forked "
        "library state, run through the machine model; non-trivial = distinct sequences; oracle = keyed map key -> one "
        "object on the implementation side, Model/Core.v on the model side; operation mix: %s"
        % (stats["systematic"], "all" if ctx.tier == "thorough" else "a rotating eighth (VERIF_SEED) of the",
           stats["random"], maxlen, stats["ops"], stats["error_outcomes"], stats["kinds"]))
    ctx.cov["samples"] = [dict(sequence=m[0], first_ops=m[1:7]) for m in meta[-3:]]
    ctx.cov["evaluations"] = counts["route_checks"] + counts["invalid_keys"] + stats["ops"]
    ctx.cov["distinct_nontrivial"] = len(set(cases))
    ctx.assumptions = ["id() classes name object identity while the objects are kept alive",
                       "a forked child starts from the state of a fresh `import periodictable` + one private table"]
    direct = data["direct_fails"]
    seen = set()
    for d in direct:
        if d["signature"] in seen:
            continue
        seen.add(d["signature"])
        ctx.report(d["signature"], d["what"],
                   dict(input=d, how="PYTHONPATH=/repo python: import periodictable; see 'what' for the expression"))
    fails = []
    if proved:
        n_ok, fails, logs, extra = vlib.run_shards("C08", PRE, CT, cases, "check_all", shard=24 if ctx.tier == "quick" else 40,
                                                   extra_eval="Eval vm_compute in model_objects.")
        for l in logs:
            ctx.note(l)
        ctx.cov["model_agreed"] = n_ok
        mk = re.search(r"= (\d+)%N", extra[0]) if extra else None
        want = counts["elements"] + counts["isotopes"]
        if mk and int(mk.group(1)) != want:
            ctx.report("C08:object-set", "the model's initial state has %s element and isotope objects, the implementation's "
                       "two tables have %d" % (mk.group(1), want), dict(obligation="correspondence: set of atoms"), found_input=False)
    else:
        kind, msg = ctx.broken
        ctx.note("%s broke: %s" % (kind, msg))
    if fails:
        diags = vlib.run_diag("C08", PRE, CT, [cases[i] for i in fails[:6]], "diag_all")
        explained = 0
        for i, dg in zip(fails[:6], diags):
            m = re.search(r"step (\d+)", dg)
            at = meta[i][1 + int(m.group(1))] if m and 1 + int(m.group(1)) < len(meta[i]) else "?"
            ctx.note("model/implementation disagree in %s at %s [%s]" % (meta[i][0], dg, at))
        # a disagreement is explained when the direct evaluation found a failing input of the property
        if not direct:
            i = fails[0]
            m = re.search(r"step (\d+)", diags[0]) if diags else None
            at = meta[i][1 + int(m.group(1))] if m and 1 + int(m.group(1)) < len(meta[i]) else "?"
            ctx.report("C08:correspondence", "identity machine and implementation disagree on %d sequences, first in %s at %s "
                       "[%s]; the direct evaluation of the property on the implementation found no failing input"
                       % (len(fails), meta[i][0], diags[0] if diags else "?", at),
                       dict(obligation="correspondence C08 (Model/Core.v vs periodictable.core)",
                            sequences=[meta[i][:40] for i in fails[:3]]), found_input=False)
    if not proved and not direct:
        kind, msg = ctx.broken
        ctx.report("C08:" + kind, "%s no longer checks: %s" % (kind, msg), dict(obligation=kind, detail=msg), found_input=False)


def replay(path):
    doc = json.load(open(path))
    ctx = vlib.Ctx("C08", doc.get("tier", "quick"), int(doc.get("seed", 0)))
    nseq, maxlen = params(ctx)
    data = vlib.run_harness("c08.py", [ctx.seed, ctx.tier, nseq, maxlen])
    hit = [d for d in data["direct_fails"] if d["signature"] == doc.get("signature")]
    if hit:
        print("REPRODUCED: %s" % hit[0]["what"][:600])
        return 1
    print("not reproduced on the current tree")
    return 0
