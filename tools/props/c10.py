"""C10 — private tables are isolated from the public table and from each other."""
import json, os, re
import vlib

PRE = """From Coq Require Import ZArith String List.
From PT Require Import Str Py AttrScript LoaderScripts Attr C09Check C10Check.
Import ListNotations.
Open Scope string_scope."""
CT = "hcase"

# signatures under which witnesses of `_refuted` theorems show up on the implementation (the other eight of the
# first round were repaired by 706f0ce / 9478875 / f23caea and their theorems replaced by the full statements)
REFUTED = {
    "C10:neutron-default-object-shared": "C10_mutable_disjoint_refuted",
}

MANIFEST = dict(
    text=("Model: the attribute-protocol machine of C09 (Model/Attr.v) with the public and two private tables, object "
          "identities for per-atom data (allocated per loader write / per loader call / module-level shared) and in-place "
          "mutation marks; loader scripts regenerated from /repo.  Theorems (Props/C10.v, axiom-free), without side "
          "conditions since the repairs 706f0ce, 9478875, f23caea: over every history of table creations, the nine inits on "
          "every table in any order relative to any use of the public table, reads/hasattr/calculators on every table and "
          "imports, every public observation is canonical (C10_public_unaffected) and every read of a private table "
          "initialised for the group is canonical (C10_fresh_private_equals_public), by an invariant over 405 reachable "
          "abstract states checked closed by vm_compute (C10_isolation); in every reachable state ANY assignment on a "
          "private atom (also while the property is pending) and any mutation of a served object other than the class-level "
          "default Neutron leaves what every other table serves and the other private table's instance dictionaries "
          "unchanged (C10_setmut_confined, C10_writes_confined); two tables share an object only if it is the class-level "
          "default of neutron (C10_mutable_disjoint_partial), for which the full statement is REFUTED "
          "(C10_mutable_disjoint_refuted = known finding C10:neutron-default-object-shared); the former failing histories "
          "are proved isolated (C10_former_witnesses_isolated); the tracked identities include what hangs below a served "
          "object - the numpy array of Xray.sftable (allocated per Xray object on first access; the translator checks "
          "Xray._gettable and fails closed on a cached/shared array), magnetic_ff entries, activation records "
          "(C10_tracked_subobjects, C10_xray_mutation_confined).  A Mutate event overwrites in place the served object and "
          "every mutable object a user reaches from it (attributes, dict values, list items, magnetic_ff[charge], activation "
          "records, the sftable / nsf_table arrays - arrays are really overwritten) and the panel includes values computed "
          "from them (xray_sld of the element and of an ion, water, magnetic j0).  Tie: one fresh interpreter per history (interleavings per "
          "group up to length 3, the nine inits in random order relative to public touches, directed isolation scenarios, "
          "random interleavings with one or two private tables incl. assignments and mutations, in thorough witnesses of "
          "the model's transitions); every event's outcome compared with the model inside coqc; direct evaluation of the "
          "property (public digests, private digests after init, foreign marks, formula(table=T) atoms, pickle round trip) "
          "yields the failing histories."),
    note=("Modelled, not verified: CPython attribute lookup and object identity; a private table is created together with "
          "mass.init (its isotopes only exist after it); assignments use a sentinel value, so a loader or calculator is "
          "never run on a table/group that holds a sentinel; sequences of several assignments/mutations are covered by the "
          "one-step theorems over reachable states plus the differential run, not by a theorem over all histories; "
          "formula(table=T) and pickle are checked directly on the implementation (their machine is C08's)."),
    technique="Coq proof: invariant over a finite abstract state space (closure checked by vm_compute), one-step frame "
              "theorems over all reachable states, one refutation witness; differential run against fresh interpreters",
    ref="DESIGN.md section 7 C10")


def report_direct(ctx, data):
    for d in data["direct_fails"]:
        ctx.report(d["signature"], d["what"], dict(history=d["history"], history_text=d["history_text"],
                                                   outcomes=d["outcomes"], refuted_theorem=REFUTED.get(d["signature"]),
                                                   how="./check C10 --replay <this file> re-runs the history in a fresh interpreter"))


def transition_witnesses(ctx, cap):
    """thorough tier: one witness history per (reachable abstract state of a group, admitted action of the group's
    alphabet), computed by the model inside coqc; returns (path of a JSON file with the histories, n_pairs, n_used)"""
    with vlib.Lock():
        ok, log = vlib.make(["Model/C10Witness.vo"], timeout=2400)
    if not ok:
        ctx.note("transition witnesses not built: " + log[-300:])
        return None, 0, 0
    rundir = os.path.join(vlib.COQ, "Run")
    os.makedirs(rundir, exist_ok=True)
    name = "C10_witness"
    with open(os.path.join(rundir, name + ".v"), "w") as f:
        f.write("From Coq Require Import String List NArith.\nFrom PT Require Import Attr AttrReach AttrWitness C10Witness.\n"
                + "".join('Eval vm_compute in (String.concat "|" (witness_strings10 %d%%N)).\n' % g for g in range(8)))
    rc, out = vlib.sh("ulimit -s unlimited 2>/dev/null; timeout 1800 coqc -Q . PT -w -all Run/%s.v" % name,
                      cwd=vlib.COQ, timeout=1900)
    for fn in os.listdir(rundir):
        if fn.startswith(name) and not fn.endswith(".v"):
            os.remove(os.path.join(rundir, fn))
    if rc != 0:
        ctx.note("transition witnesses did not evaluate: " + out[-300:])
        return None, 0, 0
    hs = []
    for hs_txt in [x for m in re.finditer(r'"((?:[^"]|"")*)"', out) for x in m.group(1).replace("\n", "").split("|")]:
        h = [e.split(",") for e in hs_txt.split(";") if e]
        if not h:
            continue
        # table[0] stands for itself only in the covalent_radius group (Model/Attr.v)
        if any(e[0] in ("read", "has", "set", "mut") and e[2] == "En" and not e[3].startswith("covalent_radius") for e in h):
            continue
        hs.append(h)
    uniq = sorted(set(json.dumps(h) for h in hs))
    n = len(uniq)
    if len(uniq) > cap:
        ctx.rng.shuffle(uniq)
        uniq = sorted(uniq[:cap])
    path = os.path.join(vlib.ROOT, "coq", "Run", name + ".json")
    with open(path, "w") as f:
        f.write("[" + ",".join(uniq) + "]")
    return path, n, len(uniq)


def spill(ctx):
    """vlib.Ctx.finish prints and writes replay files for the first five violations only; the further ones are
    written and printed here in the same format (they are counted by finish())."""
    seen, n = set(), 0
    for sig, what, replay, found in ctx.violations:
        if sig in seen:
            continue
        seen.add(sig)
        n += 1
        if n <= 5:
            continue
        path = os.path.join("replay", "C10-%d.json" % n)
        doc = dict(property="C10", signature=sig, what=what, seed=ctx.seed, tier=ctx.tier, found_failing_input=found)
        doc.update(replay)
        os.makedirs(os.path.join(vlib.ROOT, "replay"), exist_ok=True)
        with open(os.path.join(vlib.ROOT, path), "w") as f:
            json.dump(doc, f, indent=1, default=str)
        print("VIOLATION property=C10 replay=%s%s" % (path, "" if found else " no-failing-input-found"))
        print("  -> %s" % what)


def unexplained(ctx, data):
    return not [d for d in data["direct_fails"] if d["signature"] not in REFUTED and not ctx.signature_known(d["signature"])]


def run(ctx):
    try:
        _run(ctx)
    finally:
        spill(ctx)


def _run(ctx):
    proved = vlib.prove(ctx, timeout=2400)
    quick = ctx.tier == "quick"
    args = [ctx.seed, ctx.tier]
    if not quick and proved:
        wpath, npairs, nused = transition_witnesses(ctx, 4000)
        if wpath:
            args += [2000, wpath]
            ctx.cov["transition_coverage"] = dict(pairs=npairs, histories_run=nused)
    data = vlib.run_harness("c10.py", args, timeout=20000)
    # the core data every table has from its constructor, mass.init and density.init (tools/harness/c10core.py)
    try:
        cd = vlib.run_harness("c10core.py", [ctx.seed, ctx.tier], timeout=3000)
        data["direct_fails"].extend(cd["direct_fails"])
        ctx.cov["core_data"] = cd["stats"]
    except Exception as e:  # noqa
        ctx.note("core-data stream did not run: %s" % str(e)[:300])
    cases, meta, st = data["cases"], data["meta"], data["stats"]
    ctx.cov["rule"] = ("one fresh interpreter per history; per group sequences (length <= 3%s) over {public touch, init(p1), "
                       "init(p2), read p1, assign p1, mutate p1 (covered / uncovered atom), read p2} packed one group per slot; "
                       "the nine init(T) in random order relative to the public touches followed by assignments/mutations/"
                       "parse/pickle; directed isolation scenarios (init before/after the public touch, init before "
                       "density.init, assignment before any touch, assignment/mutation of each name on five atoms with both "
                       "tables initialised); random interleavings over the %d-event alphabet (length <= %d) with one or two "
                       "private tables; non-trivial = distinct history; oracle = Model/Attr.v run inside coqc + canonical "
                       "digests; stats: %s" % (", sampled" if quick else "", st["alphabet"], 10 if quick else 30, st))
    ctx.cov["evaluations"] = st["events"]
    ctx.cov["histories"] = st["histories"]
    ctx.cov["distinct_nontrivial"] = st["distinct"]
    ctx.cov["samples"] = [meta[i][:8] for i in range(min(3, len(meta)))]
    ctx.cov["reachable_abstract_states"] = dict(per_group=[13, 54, 54, 40, 54, 82, 54, 54], total=405)
    ctx.assumptions = ["values are compared through an address-free deep view (digest); mutation marks are collected apart",
                       "a private table is created together with mass.init",
                       "representative atoms Fe, Rf, Fe-58, Fe-45, Rf-261 and their ions"]
    if st.get("cover_mismatch"):
        ctx.report("C10:representatives", "the representative atoms are no longer covered/uncovered as the model assumes: %s"
                   % st["cover_mismatch"][:3], dict(obligation="representative atoms", detail=st["cover_mismatch"]), found_input=False)
    report_direct(ctx, data)
    ctx.cov["refuted_witnesses_replayed"] = sorted(set(d["signature"] for d in data["direct_fails"] if d["signature"] in REFUTED))
    if not proved:
        kind, msg = ctx.broken
        ctx.note("%s broke: %s" % (kind, msg[:300]))
        if unexplained(ctx, data):
            ctx.report("C10:" + kind, "%s no longer checks: %s" % (kind, msg), dict(obligation=kind, detail=msg), found_input=False)
        return
    n_ok, fails, logs, _ = vlib.run_shards("C10", PRE, CT, cases, "check_all10", shard=40 if quick else 100)
    for l in logs:
        ctx.note(l)
    ctx.cov["model_agreed"] = n_ok
    if fails:
        diags = vlib.run_diag("C10", PRE, CT, [cases[i] for i in fails[:6]], "diag_all10")
        for i, dg in zip(fails[:6], diags):
            m = re.match(r"event (\d+)", dg)
            k = int(m.group(1)) if m else 0
            ctx.note("model/implementation disagree at %s of history: %s" % (dg, "; ".join(meta[i][:k + 1][-8:])))
        if unexplained(ctx, data):
            ctx.report("C10:correspondence", "the attribute-protocol model and the implementation disagree on %d histories, e.g. at "
                       "%s; the direct evaluation of the property found no failing history beyond the recorded refutations"
                       % (len(fails), diags[0] if diags else "?"),
                       dict(obligation="correspondence C10 (Model/Attr.v + Gen/LoaderScripts.v vs periodictable)",
                            histories=[meta[i] for i in fails[:3]], diagnosis=diags[:6]), found_input=False)
    missing = [s for s in REFUTED if s not in [d["signature"] for d in data["direct_fails"]]]
    if missing and not fails:
        ctx.note("refutation witnesses that did not show on the implementation: %s" % missing)
        ctx.report("C10:refutation-stale", "the model refutes the full statement through %s but the implementation no longer fails "
                   "there: the _refuted theorems must be replaced by the full theorem" % missing,
                   dict(obligation="refutation witnesses replay", missing=missing), found_input=False)


def replay(path):
    doc = json.load(open(path))
    if any(t in doc.get("signature", "") for t in (":core", ":atoms:", "in-place", "route-other-table")):
        cd = vlib.run_harness("c10core.py", [0, "quick"], timeout=3000)
        hit = [d for d in cd["direct_fails"] if d["signature"] == doc["signature"]]
        if hit:
            print("REPRODUCED: %s" % hit[0]["what"])
            return 1
        print("not reproduced on the current tree")
        return 0
    if not doc.get("history"):
        print("replay: %s records an obligation (%s); re-run ./check C10 %s" % (path, doc.get("what", "")[:200], doc.get("tier", "quick")))
        return 0
    res = vlib.run_harness("c09replay.py", [os.path.abspath(path)], timeout=600)
    for t, o in zip(res["history_text"], res["outcomes"]):
        print("  %-60s -> %s" % (t, o))
    if res["reproduced"]:
        print("REPRODUCED: %s" % doc.get("what"))
        return 1
    print("not reproduced on the current tree")
    return 0
