"""C04 — neutron results obey density, cell-size, grouping, unit and vector invariances; non-negativity."""
import json
import vlib
from props import c03 as C03

PRE, CT = C03.PRE, C03.CT

MANIFEST = dict(
    text=("Theorems (Props/C04.v; axioms: the standard library's classical reals, classic, functional extensionality): on "
          "the documented equations, which by C03's refinement theorem are exactly what the model returns: density*k "
          "scales the three SLDs and three cross sections by k and the penetration depth by 1/k for every real k<>0 "
          "(C04_scale_density); the seven numbers depend on a formula only through the per-atom totals cnt, up to a "
          "common factor k>0 - so regrouping, nesting, reordering (k=1) and n*formula change nothing "
          "(C04_regroup_invariant, C04_scale_counts, via 'a sum over the atoms dict is determined by the totals', "
          "C04_dict_sum_determined, and count_atoms_spec of C02); energy= is the documented sqrt(h^2/(2 m_n E)) and "
          "results depend on the argument only through the wavelength; E*lambda^2 = ENERGY_FACTOR, v*lambda = "
          "VELOCITY_FACTOR, both round trips, E = m v^2/2 consistency, for any constants; the anchor |E(1.798)-25.3| <= 0.05 "
          "and |v(1.798)-2200| <= 1 from the regenerated constants; vector call = map of scalar calls; imaginary and "
          "incoherent SLD, all cross sections and the penetration depth are >= 0 (needs Im b <= 0, absorption, total >= 0 "
          "for every record: kernel-evaluated sweep).  Tie: related runs on the implementation (compound, k*density), "
          "(k*compound), random regrouping/permutation, energy= vs wavelength=, vector vs scalar, conversions, anchor - "
          "every run compared with model and documented equations in Coq (interval enclosure, 2^-30), the relations "
          "between runs evaluated on the implementation alone."),
    note="Modelled not verified: numpy broadcasting; float rounding (relations checked to 1e-11 relative to the sum of |terms|).",
    technique="Coq proof over R (field/nra, induction over the atoms dict) + metamorphic differential run",
    ref="DESIGN.md section 7 C04")


def sizes(ctx):
    return 220 if ctx.tier == "quick" else 5000


def run(ctx):
    proved = vlib.prove(ctx)
    data = vlib.run_harness("c04.py", [ctx.seed, sizes(ctx), ctx.tier], timeout=6000)
    cases, meta, st = ["CConsts"] + data["cases"], [dict(call="regenerated constants", tag="consts")] + data["meta"], data["stats"]
    ctx.cov["rule"] = ("base = random nested compound over all atoms with data (40%% with an energy-dependent atom), density in "
                       "(0,25], wavelength in [0.05,50]; per base: density*k, k*compound, regrouped/reordered structure with the "
                       "same totals, energy= vs wavelength=neutron_wavelength(energy), vector (1..5, ndarray or list) vs scalar "
                       "calls; conversions energy/wavelength/velocity, round trips, anchor; non-negativity of every output of "
                       "every call; non-trivial = distinct call text; stats: %s" % st)
    ctx.cov["samples"] = [meta[i]["call"] for i in (1, len(meta) // 2, len(meta) - 3)]
    ctx.cov["evaluations"] = len(cases)
    ctx.cov["distinct_nontrivial"] = len(set(m["call"] for m in meta))
    ctx.assumptions = ["relations between runs: 1e-11 relative to the sum of |terms| (1e-13 for vector vs scalar and conversions)",
                       "each run vs model/spec: 2^-30 relative (DESIGN 3.2)"]
    seen = set()
    for d in data["direct_fails"]:
        if d["signature"] in seen:
            continue
        seen.add(d["signature"])
        ctx.report(d["signature"], d["what"], dict(input=d, how="tools/harness/c04.py %d %d %s" % (ctx.seed, sizes(ctx), ctx.tier)))
    if not proved:
        kind, msg = ctx.broken
        ctx.note("%s broke: %s" % (kind, msg))
        if not data["direct_fails"]:
            ctx.report("C04:" + kind, "%s no longer checks: %s" % (kind, msg), dict(obligation=kind, detail=msg), found_input=False)
        return
    n_ok, fails, logs, _ = vlib.run_shards("C04", PRE, CT, cases, "check_all", shard=120 if ctx.tier == "quick" else 400)
    for l in logs:
        ctx.note(l)
    ctx.cov["model_agreed"] = n_ok
    if fails:
        C03.explain(ctx, "C04", cases, meta, fails, data["direct_fails"])


def replay(path):
    doc = json.load(open(path))
    sig = doc.get("signature", "")
    case = doc.get("case") or (doc.get("cases") or [{}])[0].get("case")
    if case:
        n_ok, fails, logs, _ = vlib.run_shards("C04", PRE, CT, [case], "check_all")
        if fails:
            print("REPRODUCED: %s" % vlib.run_diag("C04", PRE, CT, [case], "diag_all")[0])
            return 1
        print("not reproduced on the current tree")
        return 0
    nb = 220 if doc.get("tier", "quick") == "quick" else 5000
    data = vlib.run_harness("c04.py", [int(doc.get("seed", 0)), nb, doc.get("tier", "quick")], timeout=6000)
    hit = [d for d in data["direct_fails"] if d["signature"] == sig]
    if hit:
        print("REPRODUCED: %s" % hit[0]["what"])
        return 1
    print("not reproduced on the current tree")
    return 0
