"""C14 — activation equals the solution of the documented capture/decay chains."""
import json, os, re
from concurrent.futures import ThreadPoolExecutor
import vlib

PRE = """From Coq Require Import ZArith QArith String List.
From PT Require Import Str Dec Py Act C14Check.
Import ListNotations."""
CT = "c14case"

MANIFEST = dict(
    text=("Theorems (Props/C14.v; axioms: the classical reals of the Coq standard library, classic and functional "
          "extensionality via Coquelicot, the primitive-integer axioms of Bignums for the evaluator facts): the closed "
          "forms of the three reaction chains - single capture with burn-up of target and product, two-step capture "
          "(Bateman), feeding by decay of an activated parent - are PROVED (Coquelicot is_derive) to satisfy their ODE "
          "systems with the right initial conditions; on these solutions activity is non-negative (integrating-factor "
          "argument, all three chains), proportional to mass, falls by exactly 2^(-t/T) over a rest time, and for single "
          "capture never falls with exposure by more than the depletion exp(-k1 dt) of the target.  The Gallina "
          "transcription of activity() (Model/Act.v; the reader of the raw activation.dat lines and the form of the "
          "burn-up branch are regenerated from /repo on every run) is proved, for the source as it stands, to denote "
          "exactly the chain solution on EVERY branch (C14_model_refines_spec), never to raise nor decline on any of "
          "the 513 rows (C14_never_raises), to be non-negative for physical inputs, to omit fast rows when the fast "
          "ratio is 0, to be independent of the resonance integrals when the Cd ratio is below 1, and to expand a "
          "natural element into its abundance-weighted isotopes; the columns read as thermalXS, resonance, half-life "
          "... are those the data file's own header labels so.  (The two statements refuted before the repair of the "
          "small-argument branch, commits 05a94d2/4ec1eac, are now proved; reverting the source flips the regenerated "
          "configuration and these obligations fail.)  Tie: every one of the 513 rows x a stratified grid from the "
          "property's ranges; each returned activity is compared inside Coq, by sign decisions on rigorous enclosures "
          "(evaluator proved sound), (i) with the model expression within 2^-30 of the magnitude of the terms the code "
          "adds and (ii) with the chain solution within 2^-30 of the solution itself, so digits lost by the code to "
          "cancellation are reported, as 'to within double-precision rounding of that solution' demands (known "
          "findings: the '2n' and 'b' branches).  A case counts as a finding only when the enclosure proves it lies "
          "outside the allowance."),
    note="Modelled not verified: libm exp/expm1, Python float()/int()/str.split. The constant 1.6278e19 (atoms per "
         "mole over 3.7e4 decays/s/uCi) and the factor 3600e-24 are taken from the source as the unit convention. "
         "Uniqueness of ODE solutions is not proved (the closed forms are shown to be solutions). Branch tests that "
         "involve ln 2 are decided with certified 16-digit bounds. The 'b' chain is specified without target burn-up "
         "(as documented). The '2n'/'b' cancellation is a floating-point effect: the real-valued model is exact there, "
         "so it is recorded by the tie (known findings), not by a theorem.",
    technique="Coq proof (Coquelicot derivatives, field/lra) on Spec and Model + exhaustive-over-rows "
              "model/implementation/solution correspondence by proved-sound interval sign decisions under vm_compute",
    ref="DESIGN.md section 7 C14")

SIG = {"small": "C14:small-argument-branch", "main": "C14:main-branch-cancellation",
       "2n": "C14:2n-cancellation", "b": "C14:b-branch-cancellation"}
WHAT = {"small": "the |U|,|V|<1e-10 branch of activity() returns W*(V-U+(V+U)/2), which is not the burn-up solution "
                 "W*(exp(-U)-exp(-V)) to second order (off by the factor 1+(V+U)/(2(V-U)), 1.5 for long-lived products)",
        "main": "exp(-U)-exp(-V) loses digits to cancellation just above the 1e-10 threshold: relative error beyond 2^-30",
        "2n": "the three-exponential sum of the '2n' branch cancels catastrophically: the result is not the two-step "
              "capture solution to within 2^-30",
        "b": "the 'b' branch lam*expm1(-lp t)-lp*expm1(-lam t) cancels for a long-lived daughter: relative error beyond 2^-30"}


def run_model(cases, fn="diag_all", shard=200, timeout=900):
    """verdict string of every case (one coqc per shard, in parallel)"""
    chunks = [(k, cases[k:k + shard]) for k in range(0, len(cases), shard)]

    def one(item):
        k, sub = item
        return vlib.run_diag("C14_s%d" % (k // shard), PRE, CT, sub, fn, timeout=timeout)
    out = []
    with ThreadPoolExecutor(max_workers=vlib.NPROC) as ex:
        for (k, sub), res in zip(chunks, ex.map(one, chunks)):
            if len(res) != len(sub):
                res = ["not-evaluated: %d verdicts for %d cases: %s" % (len(res), len(sub), (res or ["?"])[0][:200])] * len(sub)
            out.extend(res)
    return out


def how(m):
    return ("PYTHONPATH=/repo /venv/bin/python -c \"import periodictable as pt; from periodictable import activation as a; "
            "iso=pt.elements[%d][%d]; env=a.ActivationEnvironment(%r,%r,%r); r=a.activity(iso,%r,env,%r,%r); "
            "print([(k.daughter,k.reaction,v) for k,v in r.items()])\"  (row %d of the isotope: %s -> %s, %s)"
            % (m["Z"], m["A"], m["fluence"], m["Cd_ratio"], m["fast_ratio"], m["mass"], m["exposure"], m["rest_times"],
               m["j"], m["isotope"], m["daughter"], m["reaction"]))


def classify(ctx, verdicts, meta, direct):
    """turn model verdicts into reports; returns counters"""
    from collections import Counter
    cnt = Counter()
    direct_inputs = set()
    for d in direct:
        i = d.get("input", {})
        direct_inputs.add((i.get("isotope"), i.get("row"), i.get("fluence"), i.get("exposure")))
    unexplained = []
    for v, m in zip(verdicts, meta):
        w = v.split()
        cnt[" ".join(w[:2]) if w[0] != "ok" else "ok"] += 1
        if w[0] == "ok":
            continue
        if w[0] == "finding":
            sig = SIG[w[1]] + ("-negative" if len(w) > 2 else "")
            ctx.report(sig, "%s; e.g. %s -> %s: %r" % (WHAT[w[1]], m["isotope"], m["daughter"], m["outcome"]),
                       dict(input=m, verdict=v, how=how(m)))
        elif w[0] == "model-and-spec":
            ctx.report("C14:differs-from-chain-solution:%s-branch" % w[1],
                       "activity of %s -> %s (%s) is %r: outside 2^-30 of the chain solution and of the transcription of "
                       "activity() this check was built against" % (m["isotope"], m["daughter"], m["reaction"], m["outcome"]),
                       dict(input=m, verdict=v, how=how(m)))
        elif w[0] in ("spec-unknown", "undecided"):
            ctx.note("%s for %s -> %s (fluence %g, exposure %g): not counted" % (v, m["isotope"], m["daughter"], m["fluence"], m["exposure"]))
        else:
            key = (m["isotope"], m["j"], m["fluence"], m["exposure"])
            if key not in direct_inputs:
                unexplained.append((v, m))
    if unexplained:
        v, m = unexplained[0]
        ctx.report("C14:correspondence", "model of activity() and implementation disagree on %d cases (first: %s on %s -> %s) "
                   "and no statement of the property fails there" % (len(unexplained), v, m["isotope"], m["daughter"]),
                   dict(obligation="correspondence C14 (Model/Act.v vs periodictable.activation.activity)",
                        cases=[dict(verdict=v, input=m) for v, m in unexplained[:10]]), found_input=False)
    return cnt


def run(ctx):
    proved = vlib.prove(ctx)
    npts = 6 if ctx.tier == "quick" else 100
    data = vlib.run_harness("c14.py", [npts, ctx.seed])
    cases, meta, direct = data["cases"], data["meta"], data["direct_fails"]
    ctx.cov["rule"] = ("exhaustive over the %d reaction rows of activation.dat x %d points per row: strata (low flux/short "
                       "exposure, high flux/long exposure, high flux/short exposure) then log-uniform fluence 1e2..1e16, "
                       "exposure 1e-3..1e4 h, mass 1e-6..1e3 g, Cd ratio in {0,1,1..1e3}, fast ratio in {0,1..1e3}, rest "
                       "times {0} + one of log-uniform 1e-3..1e5 h / {1,24,360,1e5} / 0.1..20 half-lives; non-trivial = the "
                       "row produced an entry; oracle = chain solution enclosed in Coq (2^-30 relative + 2^-1074) and the "
                       "transcription of activity(); plus direct statements (sign, exceptions, mass linearity, rest decay, "
                       "omission rules, natural = abundance-weighted isotopes, monotone up to depletion)" % (data["nrows"], npts))
    ctx.cov["exhaustive"] = True
    ctx.cov["samples"] = meta[3:6]
    ctx.assumptions = ["allowance 2^-30 relative to the chain solution (plus 2^-1074 for underflow)",
                       "model comparison allowance 2^-30 x magnitude of the terms the code adds",
                       "Python float inputs transmitted as exact rationals"]
    model_ok = proved
    if not proved:
        # a broken obligation is not yet a violation: the search for a failing input still runs the model
        # beside the implementation when the model itself builds
        kind, msg = ctx.broken
        ctx.note("%s broke: %s" % (kind, msg))
        if kind == "proof":
            with vlib.Lock():
                vlib.regen(ctx.pid)   # another check may have regenerated Gen from a different tree meanwhile
                model_ok, _ = vlib.make(["Model/C14Check.vo"])
        elif kind == "translator":
            # the source no longer has a shape the translator recognises: search for a failing input with the
            # model and the chain-solution Spec as last generated (the reaction table is data and is still there)
            with vlib.Lock():
                model_ok, _ = vlib.make(["Model/C14Check.vo"])
            ctx.note("translation failed; the failing-input search uses the last successfully generated Gen files")
    if model_ok:
        verdicts = run_model(cases)
        keys = vlib.run_diag("C14_keys", PRE, CT, [], "(fun _ : list c14case => model_row_keys)")
        ctx.cov["evaluations"] = len(cases)
        ctx.cov["distinct_nontrivial"] = sum(1 for m in meta if isinstance(m["outcome"], list))
        if sorted(keys) != sorted(data["row_keys"]):
            ctx.report("C14:row-set", "the reader model finds %d rows, the implementation serves %d (or they differ in "
                       "isotope/daughter/reaction/fast)" % (len(keys), len(data["row_keys"])),
                       dict(obligation="correspondence: set of reaction rows",
                            only_model=sorted(set(keys) - set(data["row_keys"]))[:5],
                            only_impl=sorted(set(data["row_keys"]) - set(keys))[:5]), found_input=False)
        cnt = classify(ctx, verdicts, meta, direct)
        ctx.cov["verdicts"] = dict(cnt)
        ctx.cov["model_agreed"] = sum(n for k, n in cnt.items() if k == "ok" or k.startswith("finding") or k.startswith("spec-unknown"))
        ctx.cov["branches"] = dict(__import__("collections").Counter(m["branch"] for m in meta))
    seen = set()
    for d in direct:
        if d["signature"] in seen:
            continue
        seen.add(d["signature"])
        ctx.report(d["signature"], d["what"], dict(input=d["input"], how="tools/harness/c14.py direct statement; replay with ./check C14 --replay <this file>"))
    ctx.cov["signatures_reported"] = sorted(set(v[0] for v in ctx.violations) | set(s for s, _ in ctx.known_printed))
    if not proved and not ctx.violations:
        kind, msg = ctx.broken
        ctx.report("C14:" + kind, "%s no longer checks: %s" % (kind, msg), dict(obligation=kind, detail=msg), found_input=False)


def replay(path):
    doc = json.load(open(path))
    inp = doc.get("input")
    if not inp:
        print("replay file names an obligation, not an input: %s" % doc.get("obligation"))
        return 1
    if str(doc.get("signature", "")).startswith("C14:table-"):
        data = vlib.run_harness("c14.py", ["--table"])
    elif "formula" in inp:
        data = vlib.run_harness("c14.py", ["--sample", json.dumps(inp)])
    else:
        data = vlib.run_harness("c14.py", ["--case", json.dumps(inp)])
    sig = doc.get("signature")
    hit = [d for d in data["direct_fails"] if d["signature"] == sig]
    if hit:
        print("REPRODUCED: %s" % hit[0]["what"])
        return 1
    if data["cases"]:
        v = run_model(data["cases"])[0]
        w = v.split()
        got = None
        if w[0] == "finding":
            got = SIG[w[1]] + ("-negative" if len(w) > 2 else "")
        elif w[0] == "model-and-spec":
            got = "C14:differs-from-chain-solution:%s-branch" % w[1]
        if got == sig:
            print("REPRODUCED: %s (%s): %r" % (sig, v, data["meta"][0]["outcome"]))
            return 1
        print("verdict now: %s" % v)
    print("not reproduced on the current tree")
    return 0
