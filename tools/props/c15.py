"""C15 — decay_time returns the time at which total activity reaches the target."""
import json
from collections import Counter
from concurrent.futures import ThreadPoolExecutor
import vlib

PRE = """From Coq Require Import ZArith QArith String List.
From PT Require Import Str Dec Py DecayTime C15Check.
Import ListNotations."""
CT = "c15case"

MANIFEST = dict(
    text=("Theorems (Props/C15.v; axioms: classical reals, classic, functional extensionality via Coquelicot; the "
          "primitive-integer axioms of Bignums/Coq-Interval for two numeric facts), about the real-number instance of the "
          "code-shaped model of Sample.decay_time/find_root (Newton iteration with the code's cap of 20 steps, the "
          "|f|<1e-10 stop, ZeroDivision/Value/Overflow errors as outcomes, final 0.1% guard; the form of the early-exit "
          "test and of df is regenerated from /repo on every run): whenever the model returns a time t, "
          "|sum_i A_i(0) 2^(-t/T_i) - target| <= 0.1% target for the TRUE summed activity, for every smallest rest "
          "time To (via f = A - target for every rest list, which uses C14's exact rest decay); it returns 0 exactly "
          "when A(0) <= target (C15_zero_iff_already_below) and df is the derivative of f (C15_df_is_derivative) - "
          "both refuted before commits 0f2a2da/34bcc0c, now proved for the source as it stands, and failing again if "
          "the source is reverted; the time the property asks for exists, is positive and is unique for every target "
          "in (0, A(0)) (continuity, strict decrease and the limit 0 of the summed activity: C15_time_exists_unique, "
          "C15_activity_decreasing) and, over the reals, is independent of the rest-time list; a Newton step with the true derivative from the left of the root moves towards it and does "
          "not pass it (convexity), and so does every later iterate, for any number of steps "
          "(C15_newton_iterates_left), the start value max_i(-log(target/Ia_i)/La_i + To) being at or left of the root "
          "(C15_start_value_left).  One full-strength statement remains REFUTED on the faithful model, with witness "
          "(known finding): because exp overflows above 709.78, the answer depends on the rest-time list and an error "
          "other than RuntimeError is raised (1 uCi, half-life 3.6 s, target 2 uCi: rest_times=[2] -> OverflowError, "
          "[0] -> 0).  Tie: samples x rest-time lists (with/without 0, any order) x targets 1e-9..10 x A(0); for every "
          "call Coq decides the property's postcondition on the implementation's own activities at removal (exact "
          "rational test for the 0 case, proved-sound interval sign decision for the 0.1% accuracy) and runs the "
          "interval instance of the model beside the implementation (same outcome kind - 0 / time / which exception - "
          "and same time to 2^-20)."),
    note="Modelled not verified: libm exp/log, float overflow threshold of exp (709.78), Python max/min/sum order. "
         "Convergence of Newton within 20 steps is not proved (the guard makes the returned value correct regardless). "
         "RuntimeError is allowed by the property and is counted, not reported. Activities at removal are those the "
         "implementation computes (C14 is about their correctness).",
    technique="Coq proof (Coquelicot derivatives, lra/nra) on a model written once over an abstract number structure "
              "and instantiated over R (theorems) and over Coq-Interval BigZ intervals (executed by vm_compute beside "
              "the implementation); postcondition decided in Coq per call",
    ref="DESIGN.md section 7 C15")

SPEC_SIG = {"early-exit": "C15:early-exit-test", "late-exit": "C15:nonzero-although-below-target",
            "negative-time": "C15:negative-time", "inaccurate": "C15:returned-time-inaccurate",
            "exception": "C15:raises-other-than-RuntimeError"}


def run_model(cases, fn="diag_all", shard=40, timeout=900):
    chunks = [(k, cases[k:k + shard]) for k in range(0, len(cases), shard)]

    def one(item):
        k, sub = item
        return vlib.run_diag("C15_s%d" % (k // shard), PRE, CT, sub, fn, timeout=timeout)
    out = []
    with ThreadPoolExecutor(max_workers=vlib.NPROC) as ex:
        for (k, sub), res in zip(chunks, ex.map(one, chunks)):
            if len(res) != len(sub):
                res = ["not-evaluated: %s" % (res or ["?"])[0][:200]] * len(sub)
            out.extend(res)
    return out


def how(m):
    return ("PYTHONPATH=/repo /venv/bin/python -c \"from periodictable import activation as a; "
            "s=a.Sample(%r,%r); s.calculate_activation(a.ActivationEnvironment(%r,%r,%r),exposure=%r,rest_times=%r); "
            "print(s.decay_time(%r))\"" % (m["formula"], m["mass"], m["fluence"], m["Cd_ratio"], m["fast_ratio"],
                                          m["exposure"], m["rest_times"], m["target"]))


def run(ctx):
    proved = vlib.prove(ctx)
    nsamples = 10 if ctx.tier == "quick" else 60
    data = vlib.run_harness("c15.py", [nsamples, ctx.seed])
    cases, meta, direct = data["cases"], data["meta"], data["direct_fails"]
    ctx.cov["rule"] = ("%d samples (the documented Co30Fe70 example, Co, Au, then formulas drawn from a list of 69; mass "
                       "1e-3..1e2 g, fluence 1e4..1e13, Cd ratio {0,70,1..1e3}, fast ratio {0,50,1..1e3}, exposure 1e-2..1e3 h) "
                       "x rest-time lists ([0,1,24,360], [0], [1], [24,1], two of [0.5],[2],[360,24,0,1],[1,24,360],[24],"
                       "[0.25,3],[0,5.5], one random) x targets = A(0) x factors from {1e-9,1e-6,1e-3,0.03,0.3,0.45,0.6,0.9,"
                       "0.999,1.001,1.5,3,10}; non-trivial = a time was returned; oracle = the property's postcondition on "
                       "the implementation's own activities at removal, decided in Coq and again in Python with 60-digit "
                       "decimals; model of decay_time run beside the implementation" % nsamples)
    ctx.cov["samples"] = meta[3:6]
    ctx.assumptions = ["accuracy test 0.1% x (1 + 2^-20)", "model/implementation times compared to 2^-20 (1+|t|)",
                       "targets exactly at A(0) are not drawn (0.999 and 1.001 are)"]
    model_ok = proved
    if not proved:
        # a broken obligation is not yet a violation: the search for a failing input still runs the model
        # beside the implementation when the model itself builds
        kind, msg = ctx.broken
        ctx.note("%s broke: %s" % (kind, msg))
        if kind == "proof":
            with vlib.Lock():
                vlib.regen(ctx.pid)   # another check may have regenerated Gen from a different tree meanwhile
                model_ok, _ = vlib.make(["Model/C15Check.vo"])
        elif kind == "translator":
            # search for a failing input with the model as last generated (see tools/props/c14.py)
            with vlib.Lock():
                model_ok, _ = vlib.make(["Model/C15Check.vo"])
            ctx.note("translation failed; the failing-input search uses the last successfully generated Gen files")
    if model_ok:
        verdicts = run_model(cases)
        ctx.cov["evaluations"] = len(cases)
        ctx.cov["distinct_nontrivial"] = sum(1 for m in meta if m["kind"] in ("value", "inaccurate", "negative"))
        cnt = Counter(verdicts)
        ctx.cov["verdicts"] = dict(cnt)
        ctx.cov["outcome_kinds"] = dict(Counter(m["kind"] for m in meta))
        unexplained = []
        for v, m in zip(verdicts, meta):
            mo = (m["rest_times"], m["target"], m["formula"])
            sp, md = (v.split("; model ") + ["?"])[:2]
            sp = sp.replace("spec ", "")
            if sp in SPEC_SIG:
                # the Python-side statement (60-digit decimals) judged the same call; report the Coq-decided verdict
                # only when the two do not agree (otherwise the direct statement below reports it)
                same = {"early-exit": "zero-wrong", "late-exit": "nonzero-wrong", "negative-time": "negative",
                        "inaccurate": "inaccurate", "exception": "exception"}[sp]
                if m["kind"] != same:
                    ctx.report(SPEC_SIG[sp], "decay_time(%r) = %r violates the postcondition (%s, decided in Coq; the "
                               "decimal evaluation said %s)" % (m["target"], m["outcome"], sp, m["kind"]),
                               dict(input=m, verdict=v, how=how(m)))
            elif m["kind"] in ("zero-wrong", "nonzero-wrong", "negative", "inaccurate", "exception") and sp in ("ok", "runtime"):
                ctx.note("decimal evaluation says %s, Coq says %s for %s target %r rest %r" % (m["kind"], sp, m["formula"], m["target"], m["rest_times"]))
            elif sp in ("accuracy-unknown", "shape"):
                ctx.note("%s for %s target %r rest %r" % (v, m["formula"], m["target"], m["rest_times"]))
            if md not in ("ok", "unknown"):
                unexplained.append((v, m))
        if unexplained:
            v, m = unexplained[0]
            ctx.report("C15:correspondence", "model of decay_time and implementation disagree on %d calls (first: %s for %s, "
                       "rest_times %r, target %r -> %r)" % (len(unexplained), v, m["formula"], m["rest_times"], m["target"], m["outcome"]),
                       dict(obligation="correspondence C15 (Model/DecayTime.v vs Sample.decay_time)",
                            cases=[dict(verdict=v, input=m, how=how(m)) for v, m in unexplained[:10]]), found_input=False)
    seen = set()
    for d in direct:
        if d["signature"] in seen:
            continue
        seen.add(d["signature"])
        ctx.report(d["signature"], d["what"], dict(input=d["input"], how=how(d["input"]) if "fluence" in d["input"] else ""))
    ctx.cov["signatures_reported"] = sorted(set(v[0] for v in ctx.violations) | set(s for s, _ in ctx.known_printed))
    if not proved and not ctx.violations:
        kind, msg = ctx.broken
        ctx.report("C15:" + kind, "%s no longer checks: %s" % (kind, msg), dict(obligation=kind, detail=msg), found_input=False)


def replay(path):
    doc = json.load(open(path))
    inp = doc.get("input")
    if not inp or "formula" not in inp:
        print("replay file names an obligation, not an input: %s" % doc.get("obligation"))
        return 1
    data = vlib.run_harness("c15.py", ["--case", json.dumps(inp)])
    sig = doc.get("signature")
    hit = [d for d in data["direct_fails"] if d["signature"] == sig]
    if hit:
        print("REPRODUCED: %s" % hit[0]["what"])
        return 1
    if data["cases"]:
        v = run_model(data["cases"][:1])[0]
        sp = v.split(";")[0].replace("spec ", "")
        if SPEC_SIG.get(sp) == sig:
            print("REPRODUCED: %s (%s)" % (sig, v))
            return 1
        print("verdict now: %s" % v)
    print("not reproduced on the current tree")
    return 0
