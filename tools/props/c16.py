"""C16 — D2O contrast matching agrees with direct substitution of labile hydrogen."""
import json
import vlib

PRE = """From Coq Require Import ZArith QArith String List.
From PT Require Import Str Dec Py Loaders Formula AtomEnv Nsf IExpr Neutron NsfCalc NeutronData NeutronContrast NeutronEval C03Check C16Calc C16Check.
Import ListNotations."""
CT = "c16case"

MANIFEST = dict(
    text=("Theorems (Props/C16.v; axioms: the standard library's classical reals, classic, functional extensionality): for "
          "EVERY compound (any structure), density, wavelength or energy and D2O fraction f, the real and imaginary SLD that "
          "the code-shaped model of D2O_sld (four neutron_sld calls, Formula.replace with its density bookkeeping, "
          "mix_values) reports at solute volume fraction 1 ARE the documented SLD of the compound with a fraction f of its "
          "labile hydrogens H[1] replaced by D and the rest by natural H at unchanged cell volume "
          "(C16_D2O_sld_equals_substitution) - through: replace keeps mass/density and moves the atoms "
          "(C16_replace_keeps_cell_volume, C16_replace_totals), SLD is linear in the composition at fixed cell volume "
          "(C16_sld_linear_fixed_volume, C16_substituted_compound_is_mix), sums over the atoms dict are determined by the "
          "totals (C17), each neutron_sld is the documented one (C03, which needs Im b <= 0 for every record: sweep); volume "
          "fraction 1 = solute, 0 = H2O/D2O mixture, linear in between; at the reported match fraction the solution's real "
          "SLD is independent of the volume fraction, it is the reported SLD, and no other fraction does this; the fasta "
          "Molecule reports 100 x that fraction and the same SLDs.  Tie: compounds with 0..n H[1], with D / natural H "
          "present, all molecules of the fasta tables, sequences; (volume fraction, D2O fraction) on an 11x11 grid + random "
          "points; wavelength / energy; every D2O_sld compared in Coq with the model and with the documented equations on "
          "the directly substituted compound at unchanged cell volume; D2O_match by its defining property."),
    note=("Modelled not verified: float rounding (2^-30; the incoherent SLD, outside the property, 2^-20).  The incoherent "
          "SLD of a mixture is not linear (as the source documents) and is only compared with the model."),
    technique="Coq proof over R (field, dict-sum induction, reuse of the C03 refinement) + differential interval evaluation",
    ref="DESIGN.md section 7 C16")


def sizes(ctx):
    return 720 if ctx.tier == "quick" else 9000


def run(ctx):
    proved = vlib.prove(ctx)
    data = vlib.run_harness("c16.py", [ctx.seed, sizes(ctx), ctx.tier], timeout=6000)
    cases, meta, st = data["cases"], data["meta"], data["stats"]
    ctx.cov["rule"] = ("random nested compounds over all atoms with data plus H[1] (0..n), D, natural H; density in (0,25] or "
                       "natural_density; default/wavelength/energy; per compound the property's statements on the "
                       "implementation (4 D2O fractions x volume fractions 0, 1, random; match point at 3 volume fractions) "
                       "and 5 (vf, f) points sent to Coq, two compounds on the full 11x11 grid; every molecule of the 8 fasta "
                       "tables and random sequences; non-trivial = distinct call; stats: %s" % st)
    ctx.cov["samples"] = [meta[i]["call"] for i in (0, len(meta) // 2, len(meta) - 1)]
    ctx.cov["evaluations"] = len(cases)
    ctx.cov["distinct_nontrivial"] = len(set(m["call"] for m in meta))
    ctx.assumptions = ["statements on the implementation: 1e-11 relative to the sum of |terms|",
                       "each call vs model/spec: 2^-30 relative (DESIGN 3.2); incoherent SLD (outside the property) 2^-20"]
    seen = set()
    for d in data["direct_fails"]:
        if d["signature"] in seen:
            continue
        seen.add(d["signature"])
        ctx.report(d["signature"], d["what"], dict(input=d, how="tools/harness/c16.py %d %d %s" % (ctx.seed, sizes(ctx), ctx.tier)))
    if not proved:
        kind, msg = ctx.broken
        ctx.note("%s broke: %s" % (kind, msg))
        if not data["direct_fails"]:
            ctx.report("C16:" + kind, "%s no longer checks: %s" % (kind, msg), dict(obligation=kind, detail=msg), found_input=False)
        return
    n_ok, fails, logs, _ = vlib.run_shards("C16", PRE, CT, cases, "check_all16", shard=70 if ctx.tier == "quick" else 300)
    for l in logs:
        ctx.note(l)
    ctx.cov["model_agreed"] = n_ok
    if fails:
        diags = vlib.run_diag("C16", PRE, CT, [cases[i] for i in fails[:20]], "diag_all16")
        unexplained = []
        for i, dg in zip(fails[:20], diags):
            call = meta[i]["call"]
            parts = [p.strip() for p in dg.split(";") if p.strip()]
            if parts and all(p.startswith("spec:") or p.startswith("match point") or p.startswith("Molecule") for p in parts):
                ctx.report("C16:differs-from-documented:%s" % parts[0].split(" ")[0],
                           "%s: the implementation disagrees with the documented meaning in: %s" % (call, dg),
                           dict(call=call, case=cases[i], diag=dg))
            else:
                unexplained.append((i, dg))
                ctx.note("model/implementation disagree on %s: %s" % (call, dg))
        if unexplained and not data["direct_fails"]:
            i, dg = unexplained[0]
            ctx.report("C16:correspondence", "model and implementation disagree on %d cases, e.g. %s in [%s]; the statements of the "
                       "property evaluated on the implementation found no failing input" % (len(unexplained), meta[i]["call"], dg),
                       dict(obligation="correspondence C16 (Model/C16Calc.v vs nsf.D2O_sld/D2O_match, fasta.Molecule)",
                            cases=[dict(call=meta[j]["call"], diag=d, case=cases[j]) for j, d in unexplained[:5]]),
                       found_input=False)


def replay(path):
    doc = json.load(open(path))
    case = doc.get("case") or (doc.get("cases") or [{}])[0].get("case")
    if case:
        n_ok, fails, logs, _ = vlib.run_shards("C16", PRE, CT, [case], "check_all16")
        if fails:
            print("REPRODUCED: %s" % vlib.run_diag("C16", PRE, CT, [case], "diag_all16")[0])
            return 1
        print("not reproduced on the current tree")
        return 0
    n = 720 if doc.get("tier", "quick") == "quick" else 9000
    data = vlib.run_harness("c16.py", [int(doc.get("seed", 0)), n, doc.get("tier", "quick")], timeout=6000)
    hit = [d for d in data["direct_fails"] if d["signature"] == doc.get("signature")]
    if hit:
        print("REPRODUCED: %s" % hit[0]["what"])
        return 1
    print("not reproduced on the current tree")
    return 0
