"""C18 — biomolecule sequences are the sum of their residues."""
import json, re
import vlib

PRE = """From Coq Require Import ZArith QArith String Ascii List.
From PT Require Import Str Dec Py Loaders Formula Fasta C18Check.
Import ListNotations.
Open Scope string_scope."""
CT = "c18case"

MANIFEST = dict(
    text=("Theorems (Props/C18.v, axiom-free), on the Gallina transcription of periodictable.fasta (Molecule.__init__, "
          "_code_average, the three code tables built from the rows regenerated from /repo through the formula-parser "
          "model, Sequence.__init__, the 'aa:'/'dna:'/'rna:' branch of formula(), read_fasta, the extension rules, "
          "load/loadall): for ANY atom data, ANY code table and ANY string, the sequence's cell volume, charge, every "
          "atom count and both masses are the sums over the table entries of the codes left after removing spaces and "
          "cutting at the first '*' (induction over the code list, through the Hill form and the H[1]->H/D "
          "substitution); two strings with the same multiset of codes give the identical molecule (induction on "
          "Permutation); strings differing only in spaces, or only after a '*', give the identical Sequence; the "
          "densities, including the object's own .density attribute (= natural_formula.density), are 1e24*(mass/N_A)/V "
          "(0 when V = 0); every ambiguity code of the three tables is the equal-weight "
          "average in volume, charge and every atom count of the codes it stands for, and every table entry stores the "
          "masses of its own formula (kernel-evaluated sweep over the regenerated rows); formula(type+':'+s) is the "
          "labile formula of Sequence(None, s, type); read_fasta(junk ++ emit records) = records for any records whose "
          "header lines start with '>' and whose sequence lines do not (induction over the records; also from the file "
          "text); the four extensions map to dna/dna/aa/rna, anything else to aa, an explicit type wins.  Tie: every "
          "table entry, every single code, random code strings of length 0..3000 over all codes with spaces and '*', "
          "permutations, the prefixes, unknown codes, generated FASTA files in a scratch directory; the implementation's "
          "name, sequence, cell_volume, charge, mass, Dmass, density, labile/natural formula structure and densities are compared "
          "with the model (counts and charge exactly when all residues are dyadic, else 2^-40) and with the sum over "
          "residue entries.  Failing inputs are searched on the implementation alone (additivity, permutation, "
          "spaces/'*', IUPAC averages, density, prefix, FASTA round trip, residue rows vs a frozen reference copy)."),
    note=("Modelled not verified: pyparsing (parser model of C01), float arithmetic (2^-40 allowance), text-mode file "
          "reading (only '\\n' line ends), str.rstrip on ASCII.  Not modelled: the deprecated tritium path of Molecule, "
          "Molecule from a density, sld/D2Omatch (C03/C16).  Residue rows are data regenerated from the source, so model and "
          "code follow an edited row together; the harness therefore keeps a reference copy of the published residue "
          "volumes/formulas as shipped in 1.6.1 (the 20 amino-acid and 2x4 nucleotide rows) and reports a failing input "
          "with signature C18:residue-data:<table>:<code>:<field> only when the table served by the implementation "
          "differs from that reference.  The documented Molecule.density attribute is observed on every object "
          "(signature C18:density-attribute if it goes missing again)."),
    technique=("Coq proof: induction over code lists / Permutation / record lists using the formula algebra of C02/C19, "
               "kernel-evaluated sweep of the table construction; differential run of the model inside coqc"),
    ref="DESIGN.md section 7 C18")


def run(ctx):
    proved = vlib.prove(ctx)
    quick = ctx.tier == "quick"
    nseq, maxlen = (600, 3000) if quick else (6000, 3000)
    data = vlib.run_harness("c18.py", [ctx.seed, nseq, maxlen], timeout=3000)
    cases, meta, stats = data["cases"], data["meta"], data["stats"]
    ctx.cov["rule"] = ("every entry of the three code tables and of the three other molecule tables; every single code; random "
                       "code strings (length 0..%d; all codes incl. ambiguity codes; spaces; '*' + tail), permutations of a "
                       "multiset, formula() prefixes, unknown codes, generated FASTA files (multi-record, blank lines, wrapped, "
                       "junk before the first header, trailing blanks, all extensions); non-trivial = distinct case text; "
                       "stats: %s" % (maxlen, json.dumps(stats)))
    ctx.cov["samples"] = [dict(meta=meta[i], case=cases[i][:300]) for i in (0, len(cases) // 3, len(cases) // 2) if i < len(cases)]
    ctx.cov["evaluations"] = len(cases)
    ctx.cov["distinct_nontrivial"] = len(set(cases))
    ctx.assumptions = ["counts/charge exact when every residue of the sequence has dyadic counts (float arithmetic exact)",
                       "otherwise tolerance 2^-40 relative (charge: relative to the sum of |charges| added)",
                       "text files use '\\n' line ends"]
    direct = data["direct_fails"]
    seen = set()
    for d in direct:
        if d["signature"] in seen:
            continue
        seen.add(d["signature"])
        ctx.report(d["signature"], d["what"], dict(input=d["input"], how="PYTHONPATH=/repo /venv/bin/python; see `what`"))
    if not proved:
        kind, msg = ctx.broken
        ctx.note("%s broke: %s" % (kind, msg))
        if not direct:
            ctx.report("C18:" + kind, "%s no longer checks: %s" % (kind, msg), dict(obligation=kind, detail=msg), found_input=False)
        return
    n_ok, fails, logs, extra = vlib.run_shards("C18", PRE, CT, cases, "check_all", shard=48 if quick else 120,
                                               extra_eval="Eval vm_compute in table_sizes.")
    for l in logs:
        ctx.note(l)
    ctx.cov["model_agreed"] = n_ok
    if extra:
        m = re.search(r"=\s*\[([^\]]*)\]", extra[0])
        if m:
            ctx.cov["model_table_sizes"] = m.group(1).replace("%N", "").strip()
    if not quick:
        rc, out = vlib.sh("timeout 2400 coqchk -silent -o -Q . PT PT.Props.C18", cwd=vlib.COQ, timeout=2500)
        ok = rc == 0 and "Axioms: <none>" in re.sub(r"\s+", " ", out)
        ctx.cov["coqchk"] = "ok, no axioms" if ok else out[-400:]
        if not ok:
            ctx.report("C18:coqchk", "coqchk does not accept Props/C18.vo axiom-free: %s" % out[-300:],
                       dict(obligation="coqchk"), found_input=False)
    if fails:
        diags = vlib.run_diag("C18", PRE, CT, [cases[i] for i in fails[:8]], "diag_all")
        spec_hits = []
        for i, dg in zip(fails[:8], diags):
            ctx.note("model/implementation disagree on %s: %s" % (meta[i], dg))
            if "sum-" in dg or "density-is" in dg:
                spec_hits.append((i, dg))
        # the implementation disagrees with the sum over its own table entries: a failing input of the property
        for i, dg in spec_hits[:3]:
            ctx.report("C18:sum-of-residues:%s:%s" % (meta[i][1], dg.split()[0]),
                       "Sequence(%r, type=%r) is not the sum of its residues' table entries: %s" % (meta[i][2], meta[i][1], dg),
                       dict(input=dict(kind=meta[i][0], type=meta[i][1], sequence=meta[i][2]), disagreement=dg))
        if not direct and not spec_hits:
            ctx.report("C18:correspondence",
                       "model (Model/Fasta.v on the regenerated tables) and implementation disagree on %d cases, e.g. %s: %s; "
                       "the direct checks on the implementation found no failing input"
                       % (len(fails), meta[fails[0]], diags[0] if diags else "?"),
                       dict(obligation="correspondence C18 (Model/Fasta.v vs periodictable.fasta)",
                            cases=[dict(meta=meta[i]) for i in fails[:10]], diagnosis=diags[:8]), found_input=False)


def replay(path):
    doc = json.load(open(path))
    seed = int(doc.get("seed", 0))
    data = vlib.run_harness("c18.py", [seed, 600 if doc.get("tier", "quick") == "quick" else 6000, 3000])
    hit = [d for d in data["direct_fails"] if d["signature"] == doc.get("signature")]
    if hit:
        print("REPRODUCED: %s" % hit[0]["what"])
        return 1
    print("not reproduced on the current tree (recorded: %s)" % doc.get("what"))
    return 0
