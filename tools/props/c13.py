"""C13 — printing a formula and parsing it back gives the same formula."""
import vlib

PRE = """From Coq Require Import ZArith QArith String Ascii List.
From PT Require Import Str Dec Py Loaders Formula FormulaMachine AtomEnv Pyparse TableEnv Printer C01Check C13Check C13Roundtrip.
Import ListNotations. Open Scope string_scope."""
CT = "c13case"

MANIFEST = dict(
    text=("Model: Gallina %g (six significant digits, round-half-even on the exact value of the double) and the "
          "transcription of _str_atoms/__str__/__repr__; the parser model of C01.  Theorems (Props/C13.v, axiom-free): the "
          "normal form a printed formula parses back to (count-1 groups dissolved into their parent) keeps every atom "
          "count for any nesting depth; counts needing at most six digits print exactly and counts of any magnitude print "
          "without exponent notation (kernel-evaluated sweeps whose bounds are in the statements).  C13_roundtrip: for every "
          "printable structure of any nesting depth (computable predicate: positive counts whose printed text is a count "
          "of the grammar, atoms the table names, no empty groups) the parser model applied to str(s) returns EXACTLY "
          "normalize(s) and consumes the whole string (built on C01_accept_structure); C13_print_is_grammar: str(s) is "
          "the rendering of a derivation tree for every structure; repr/named-formula statements.  That fmt_count always "
          "yields a grammar count is a checked hypothesis (evaluated on every case of the tie), not a theorem.  "
          "Tie: formulas from parsing, arithmetic, nested sequences and the "
          "mixture constructors with counts from 1e-8 to 1e11, all atom kinds incl. D/T and their ions: str/repr equal the "
          "model printer character for character; formula(str(f)).structure equals normalize(structure) (counts at the "
          "printed precision) and equals the parser model's result on the printed string."),
    note="Modelled not verified: C printf %g (transcribed, validated against the implementation on every case), pyparsing.",
    technique="Coq proof (structural induction + bounded kernel sweeps) and differential run of printer+parser models",
    ref="DESIGN.md section 7 C13")


def run(ctx):
    proved = vlib.prove(ctx)
    quick = ctx.tier == "quick"
    ncase = 2000 if quick else 40000
    data = vlib.run_harness("c13.py", [ctx.seed, ncase], timeout=3000)
    cases, meta = data["cases"], data["meta"]
    ctx.cov["rule"] = ("formulas from (parsed grammar strings | nested sequences | a*f+b*g | mix_by_weight/volume | n*f += atom), "
                       "counts 1e-8..1e11, all atom kinds incl. D/T ions, 1 in 12 named; non-trivial = distinct printed string; "
                       "stats: %s" % data["stats"])
    ctx.cov["samples"] = meta[:5]
    ctx.cov["evaluations"] = len(cases)
    ctx.cov["distinct_nontrivial"] = len(set(m["str"] for m in meta))
    seen = set()
    for d in data["direct_fails"]:
        if d["signature"] in seen:
            continue
        seen.add(d["signature"])
        ctx.report(d["signature"], d["what"], dict(input=d))
    if not proved:
        kind, msg = ctx.broken
        if not data["direct_fails"]:
            ctx.report("C13:" + kind, "%s no longer checks: %s" % (kind, msg), dict(obligation=kind, detail=msg), found_input=False)
        return
    shard = 130 if quick else 400
    n_ok, fails, logs, extra = vlib.run_shards("C13", PRE, CT, cases, "check_all", shard=shard,
                                               extra_eval="Eval vm_compute in printable_all cases.")
    import re
    mp = re.search(r"= (\d+)%N", extra[0]) if extra else None
    if mp:
        ctx.cov["printable_hypothesis"] = "C13_roundtrip's hypothesis `printable` holds for %s of the first %d cases" % (
            mp.group(1), min(shard, len(cases)))
    for l in logs:
        ctx.note(l)
    ctx.cov["model_agreed"] = n_ok
    if fails:
        diags = vlib.run_diag("C13", PRE, CT, [cases[i] for i in fails[:8]], "diag_all")
        direct_strings = set(d.get("string") for d in data["direct_fails"])
        unexplained = []
        for k, i in enumerate(fails):
            dg = diags[k] if k < len(diags) else "?"
            if k < 8:
                ctx.note("disagreement (%s) on %r" % (dg.strip(), meta[i]["str"]))
            if meta[i]["str"] in direct_strings:
                continue
            if "roundtrip" in dg:
                ctx.report("C13:roundtrip-structure", "formula(str(f)) is not the normalized structure of f for str(f) = %r" % meta[i]["str"],
                           dict(input=meta[i]))
            else:
                unexplained.append(meta[i])
        if unexplained:
            ctx.report("C13:correspondence", "printer/parser model and implementation disagree on %d formulas (first %r) although the "
                       "round trip itself holds there" % (len(unexplained), unexplained[0]["str"]),
                       dict(obligation="correspondence C13 (Model/Printer.v, Model/Pyparse.v)", cases=unexplained[:10]), found_input=False)


def replay(path):
    import json
    doc = json.load(open(path))
    s = (doc.get("input") or {}).get("string") or (doc.get("input") or {}).get("str")
    code = "from periodictable import formula\ntry:\n f=formula(%r); print('OK', f.structure)\nexcept Exception as e:\n print('RAISES', type(e).__name__, e)" % s
    rc, out = vlib.sh([vlib.PY, "-c", code], env=vlib.impl_env())
    print(out)
    print("recorded:", doc.get("what"))
    return 0
