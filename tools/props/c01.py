"""C01 — a formula string denotes exactly the composition its documented grammar says."""
import vlib

PRE = """From Coq Require Import ZArith QArith String Ascii List.
From PT Require Import Str Dec Py Loaders Formula FormulaMachine AtomEnv Pyparse TableEnv Grammar C01Check.
Import ListNotations. Open Scope string_scope."""
CT = "c01case"

MANIFEST = dict(
    text=("Model: Gallina transcription of the pyparsing grammar (ordered choice, pyparsing's white-space skipping rules, "
          "NotAny(White) guards, aborting parse actions; compound AND mixture grammar) with the table's symbols, isotopes "
          "and ion charges regenerated from /repo.  Spec: derivation trees of the documented grammar, render, and the "
          "guide's denotation (counts multiply their group, repeats add).  Theorems (Props/C01.v, 32 statements, all "
          "closed under the global context): C01_accept - for EVERY table and every well-formed derivation tree of any "
          "nesting depth, the parser model accepts render(t), consumes it entirely, and the structure it returns has "
          "exactly the atom counts, net charge and density the Spec assigns (structural induction over the nested tree, "
          "fuel shown sufficient); the unambiguity side conditions of well-formedness are proved necessary "
          "(C01_side_conditions_needed); rejection theorems at any element position and nesting depth: unknown symbol -> "
          "ValueError, undefined isotope -> KeyError, isotope tag on D/T -> TypeError, undefined charge -> ValueError, "
          "unbalanced or inserted parentheses, '@' without number, leading-zero counts, malformed isotope/ion tags and "
          "left-over text are never accepted; fuel independence and proper-suffix consumption.  Tie: strings rendered "
          "from random derivation trees (all elements/isotopes/ions, all count spellings and separators, nesting) and nine "
          "kinds of malformation, public and private table: implementation vs parser model (structure, exact counts, "
          "density, error kind) AND implementation vs Spec denotation of the tree (atoms, charge, density) evaluated in Coq."),
    note=("Modelled not verified: pyparsing's engine (modelled as PEG with its white-space rules), Python float(), the "
          "recursion limit.  'text after a density tag without n/i marker' (NaCl@2.16x) is covered by the tie only."),
    technique="Coq proof by structural induction on derivation trees (unbounded nesting) + differential run of parser model and Spec denotation",
    ref="DESIGN.md section 7 C01, section 11")


def run(ctx):
    proved = vlib.prove(ctx)
    quick = ctx.tier == "quick"
    ncase, depth = (2400, 4) if quick else (60000, 10)
    data = vlib.run_harness("c01.py", [ctx.seed, ncase, depth], timeout=3000)
    cases, meta = data["cases"], data["meta"]
    ctx.cov["rule"] = ("strings rendered from random derivation trees of the documented compound grammar (nesting depth <= %d, "
                       "all elements/isotopes/ions incl. D,T, count spellings 3/10/0.5/.5/1./12.50, separators '',' ','+',' + ',tab, "
                       "optional @density with n/i) = 2/3 of cases; 1/3 one of nine malformations; every 4th case on a private table; "
                       "non-trivial = distinct string; stats: %s" % (depth, data["stats"]))
    ctx.cov["samples"] = meta[:4]
    ctx.cov["evaluations"] = len(cases)
    ctx.cov["distinct_nontrivial"] = len(set(m["string"] for m in meta))
    seen = set()
    for d in data["direct_fails"]:
        if d["signature"] in seen:
            continue
        seen.add(d["signature"])
        ctx.report(d["signature"], d["what"], dict(input=d, how="PYTHONPATH=/repo python -c 'from periodictable import formula; print(formula(%r).atoms)'" % d.get("string")))
    if not proved:
        kind, msg = ctx.broken
        if not data["direct_fails"]:
            ctx.report("C01:" + kind, "%s no longer checks: %s" % (kind, msg), dict(obligation=kind, detail=msg), found_input=False)
        return
    n_ok, fails, logs, _ = vlib.run_shards("C01", PRE, CT, cases, "check_all", shard=150 if quick else 400)
    for l in logs:
        ctx.note(l)
    ctx.cov["model_and_spec_agreed"] = n_ok
    if fails:
        diags = vlib.run_diag("C01", PRE, CT, [cases[i] for i in fails[:10]], "diag_all")
        direct_strings = set(d.get("string") for d in data["direct_fails"])
        unexplained = []
        for i, dg in zip(fails[:10], diags):
            ctx.note("disagreement (%s) on %r [%s]" % (dg.strip(), meta[i]["string"], meta[i]["kind"]))
        for k, i in enumerate(fails):
            dg = diags[k] if k < len(diags) else "?"
            s = meta[i]["string"]
            if s in direct_strings:
                continue
            if "spec" in dg:
                # the implementation departs from the Spec denotation of the tree: a failing input
                ctx.report("C01:spec:%s" % meta[i]["kind"], "formula(%r) does not denote what the grammar says (%s)" % (s, meta[i]["kind"]),
                           dict(input=meta[i]))
            else:
                unexplained.append(meta[i])
        if unexplained:
            ctx.report("C01:correspondence", "parser model and implementation disagree on %d strings (first %r) although the "
                       "implementation matches the grammar's denotation there" % (len(unexplained), unexplained[0]["string"]),
                       dict(obligation="correspondence C01 (Model/Pyparse.v vs formula_grammar)", cases=unexplained[:10]),
                       found_input=False)


def replay(path):
    import json, subprocess
    doc = json.load(open(path))
    s = (doc.get("input") or {}).get("string")
    if s is None:
        print("no string in replay file")
        return 2
    code = "from periodictable import formula\ntry:\n f=formula(%r); print('OK', dict(f.atoms), f.density)\nexcept Exception as e:\n print('RAISES', type(e).__name__, e)" % s
    rc, out = vlib.sh([vlib.PY, "-c", code], env=vlib.impl_env())
    print(out)
    print("recorded:", doc.get("what"))
    return 0
