"""C11 — mixtures keep the requested mass or volume proportions and a consistent density."""
import vlib

PRE = """From Coq Require Import ZArith QArith String Ascii List.
From PT Require Import Str Dec Py Loaders Formula FormulaMachine AtomEnv Pyparse TableEnv Mixture PyparseMix C11Check.
Import ListNotations. Open Scope string_scope."""
CT = "c11case"

MANIFEST = dict(
    text=("Model: exact-rational transcription of _mix_by_weight_pairs / _mix_by_volume_pairs and of the whole mixture "
          "grammar (wt%, vol%, mass/volume units, layers, '//', grouped/nested/repeated mixtures, '@' on groups) on top of "
          "the parser model.  Theorems (Props/C11.v, axiom-free, for every list of components and all rational "
          "quantities): component masses (volumes) equal quantity/scale, hence are in the requested ratio; the mixture's "
          "atoms are the multiplier-weighted sums; density = total mass / total volume (weight) and the volume-weighted "
          "mean (volume); zero quantities vanish; results do not depend on the scaling of a component's formula unit; the "
          "scale is the attained minimum (smallest component has multiplier one).  That each string form equals the "
          "corresponding call is decided by the tie (the parser model calls the same pair functions).  Tie: calls and "
          "strings with 1-5 components (with/without density, nested mixtures), quantities 1e-4..1e6, every unit spelling, "
          "repeated groups, error paths; structure, density, name, total_mass, thickness vs the model at 2^-40."),
    note="Modelled not verified: pyparsing, float arithmetic (tolerance 2^-40 relative; percent remainders kept >= 1).",
    technique="Coq proof over Q (field + induction over component lists) and differential run of the mixture/parser model",
    ref="DESIGN.md section 7 C11")


def run(ctx):
    proved = vlib.prove(ctx)
    quick = ctx.tier == "quick"
    ncase = 1200 if quick else 30000
    data = vlib.run_harness("c11.py", [ctx.seed, ncase], timeout=3000)
    cases, meta = data["cases"], data["meta"]
    ctx.cov["rule"] = ("eight streams in rotation: mix_by_weight / mix_by_volume calls, wt-percent / vol-percent strings (all "
                       "spellings), mass+volume-unit strings, layer strings, repeated/nested/grouped strings, error paths; "
                       "components: elements, compounds with and without density, ions, isotopes, nested mixtures; "
                       "non-trivial = distinct text; stats: " + str(data["stats"]))
    ctx.cov["samples"] = meta[:8]
    ctx.cov["evaluations"] = len(cases)
    ctx.cov["distinct_nontrivial"] = len(set(m["text"] for m in meta))
    seen = set()
    for d in data["direct_fails"]:
        if d["signature"] in seen:
            continue
        seen.add(d["signature"])
        ctx.report(d["signature"], d["what"], dict(input=d))
    if not proved:
        kind, msg = ctx.broken
        if not data["direct_fails"]:
            ctx.report("C11:" + kind, "%s no longer checks: %s" % (kind, msg), dict(obligation=kind, detail=msg), found_input=False)
        return
    n_ok, fails, logs, _ = vlib.run_shards("C11", PRE, CT, cases, "check_all", shard=80 if quick else 300)
    for l in logs:
        ctx.note(l)
    ctx.cov["model_agreed"] = n_ok
    if fails:
        diags = vlib.run_diag("C11", PRE, CT, [cases[i] for i in fails[:8]], "diag_all")
        direct_inputs = set(d.get("input") for d in data["direct_fails"])
        unexplained = [meta[i] for i in fails if meta[i]["text"] not in direct_inputs]
        for i, dg in zip(fails[:8], diags):
            ctx.note("disagreement (%s) on %s" % (dg.strip(), meta[i]["text"]))
        if unexplained:
            ctx.report("C11:correspondence", "mixture model and implementation disagree on %d inputs (first: %s; %s) and the direct "
                       "proportion checks found no failing input there" % (len(unexplained), unexplained[0]["text"], diags[0] if diags else "?"),
                       dict(obligation="correspondence C11 (Model/Mixture.v, Model/PyparseMix.v)", cases=unexplained[:10]), found_input=False)


def replay(path):
    import json
    doc = json.load(open(path))
    s = (doc.get("input") or {}).get("input")
    code = "from periodictable import formula\nfrom periodictable.formulas import mix_by_weight, mix_by_volume\ntry:\n f=%s; print('OK', f, f.density)\nexcept Exception as e:\n print('RAISES', type(e).__name__, e)" % (
        s if s and s.startswith("mix_by") else "formula(%r)" % s)
    rc, out = vlib.sh([vlib.PY, "-c", code], env=vlib.impl_env())
    print(out)
    print("recorded:", doc.get("what"))
    return 0
