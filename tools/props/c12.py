"""C12 — density, natural density, isotope substitution and cell volume are consistent."""
import json
import vlib

PRE = """From Coq Require Import ZArith QArith String Ascii List.
From PT Require Import Str Dec Py Loaders Formula FormulaMachine AtomEnv Pyparse TableEnv Mixture PyparseMix Density C12Check.
Import ListNotations. Open Scope string_scope."""
CT = "c12case"

MANIFEST = dict(
    text=("Model (Model/Density.v): natural_density getter/setter, the density attribute, formula()'s density keywords for "
          "strings, Formula.replace transcribed on the atoms dict (then formula(atoms, density) = Hill structure + the "
          "defaulting of Formula.__init__) and Formula.volume (covalent-sphere estimate with the documented packing factors, "
          "or util.cell_volume with its defaulting rules) as real expressions over pi, sqrt, cos.  Theorems (Props/C12.v): "
          "over Q, axiom-free, for every structure of any nesting: natural_density/density = sum(count x natural element "
          "mass less charge electrons)/sum(count x mass); setter and getter invert in both directions; '@d'/'@di' tags = "
          "density keyword, '@dn' = natural_density keyword, keyword = attribute assignment; single-atom default; replace "
          "keeps every other count, gives the target n_src*p and leaves the source n_src*(1-p), changes the mass by "
          "n_src*p*(m_src-m_tgt), keeps mass/density (on the property's domain with no side condition), keeps an unknown "
          "density unknown, is the identity for an absent source and for an atom substituted for itself; the branch-by-branch "
          "transcription of _isotope_substitution as it stands after repairs 7a61cac/b97d1be equals that model for every input "
          "(C12_replace_code_agrees; the former failing inputs H2O, H->D and H2O@1, H->H are replayed in C12_replace_former_witnesses).  Over R "
          "(classical reals): the lattice expression a b c sqrt(1-cos^2-cos^2-cos^2+2 cos cos cos) 1e-24 with degrees and the "
          "defaulting rules, cubic and orthorhombic special cases, the packing formula (4 pi/3) sum r^3 n / pf 1e-24, the five "
          "packing factors, scaling and additivity in the counts.  Tie: formulas from strings (with tags and mixtures), nested "
          "structures, dicts and atoms over all elements/isotopes/ions; keywords, attribute assignments; density, "
          "natural_density, natural_mass_ratio(), mass compared at 2^-40; replace(src, tgt, portion) structure and density at "
          "2^-40; volumes against the 80-bit interval enclosure of the real expression at 2^-30."),
    note=("Modelled not verified: float arithmetic (tolerances above), pyparsing.  PACKING_FACTORS are the documented values "
          "(docstring table), not read from the source; covalent radii come from the regenerated Cordero table."),
    technique="Coq proof over Q (induction over nested structures and the atoms dict) and over R (IExpr meaning), differential run of the model, interval enclosure for volumes",
    ref="DESIGN.md section 7 C12")


def run(ctx):
    proved = vlib.prove(ctx)
    quick = ctx.tier == "quick"
    ncase = 1500 if quick else 40000
    data = vlib.run_harness("c12.py", [ctx.seed, ncase], timeout=3000)
    cases, meta = data["cases"], data["meta"]
    ctx.cov["rule"] = ("ten-slot rotation: 3 density reads, 4 replace, 2 volume by packing factor, 1 volume by lattice parameters; "
                       "every case also reads density / natural_density / natural_mass_ratio() / mass after 0-3 attribute "
                       "assignments; sources: strings (random atoms, groups, '@d' '@dn' '@di' tags, mixtures), nested structures, "
                       "dicts, atoms; atoms drawn from all elements, isotopes, ions, isotope ions; portions 0, 1, 0.5, 0.25, random; "
                       "non-trivial = distinct case text; plus 120 direct tag/keyword/attribute and single-atom-default "
                       "comparisons on the implementation; stats: " + json.dumps(data["stats"]))
    ctx.cov["samples"] = [m["text"] for m in meta[:8]]
    ctx.cov["evaluations"] = len(cases)
    ctx.cov["distinct_nontrivial"] = len(set(m["text"] for m in meta))
    ctx.assumptions = ["rational observables: tolerance 2^-40 relative", "volumes: within 2^-30 relative of the rigorous enclosure",
                       "1e-24 and the packing factors are taken as exact reals; Python uses their nearest doubles"]
    # one report per signature, on the shortest failing input
    best = {}
    witness = set(m["text"] for m in meta if m["kind"] == "replace-witness")
    rank = lambda d: (d["input"] not in witness, len(d["input"]))
    for d in data["direct_fails"]:
        if d["signature"] not in best or rank(d) < rank(best[d["signature"]]):
            best[d["signature"]] = d
    ctx.cov["direct_fails"] = dict((k, sum(1 for d in data["direct_fails"] if d["signature"] == k)) for k in best)
    for sig in sorted(best):
        ctx.report(sig, best[sig]["what"], dict(input=best[sig]))
    if not proved:
        # a broken translation / proof is reported even when failing inputs were found: those may be
        # listed known findings unrelated to what broke
        kind, msg = ctx.broken
        ctx.report("C12:" + kind, "%s no longer checks: %s" % (kind, msg), dict(obligation=kind, detail=msg), found_input=False)
        return
    n_ok, fails, logs, _ = vlib.run_shards("C12", PRE, CT, cases, "check_all", shard=100 if quick else 400)
    for l in logs:
        ctx.note(l)
    ctx.cov["model_agreed"] = n_ok
    if fails:
        diags = vlib.run_diag("C12", PRE, CT, [cases[i] for i in fails[:8]], "diag_all")
        direct_inputs = set(d.get("input") for d in data["direct_fails"])
        unexplained = [i for i in fails if meta[i]["text"] not in direct_inputs and meta[i].get("base") not in direct_inputs]
        for i, dg in zip(fails[:8], diags):
            ctx.note("disagreement (%s) on %s" % (dg.strip(), meta[i]["text"]))
        ctx.cov["explained_by_direct_fails"] = len(fails) - len(unexplained)
        if unexplained:
            udiag = vlib.run_diag("C12", PRE, CT, [cases[i] for i in unexplained[:4]], "diag_all")
            ctx.report("C12:correspondence", "density model and implementation disagree on %d inputs (first: %s; %s) and the direct "
                       "checks of the property found no failing input there" % (len(unexplained), meta[unexplained[0]]["text"], udiag[0] if udiag else "?"),
                       dict(obligation="correspondence C12 (Model/Density.v)", cases=[meta[i] for i in unexplained[:10]], diag=udiag),
                       found_input=False)


def replay(path):
    doc = json.load(open(path))
    text = (doc.get("input") or {}).get("input")
    print("recorded:", doc.get("what"))
    if not text:
        print("no input recorded (obligation: %s); re-run ./check C12 %s" % (doc.get("obligation"), doc.get("tier", "quick")))
        return 0
    data = vlib.run_harness("c12.py", ["--replay", text])
    for d in data["direct_fails"]:
        print("FAILS %s: %s" % (d["signature"], d["what"]))
    if not data["direct_fails"]:
        print("the property's statements hold on this input now")
    return 1 if data["direct_fails"] else 0
