"""C19 — Hill form: same atom counts, documented order, canonical, idempotent, ordered = own Hill form."""
import re
import vlib

PRE = """From Coq Require Import ZArith QArith String List.
From PT Require Import Str Dec Py Loaders Formula AtomEnv C19Check.
Import ListNotations."""
CT = "list fobs * list (Z * Z * bool) * list (struct * bool * bool)"

MANIFEST = dict(
    text=("Theorems (Props/C19.v, all closed under the global context): the tuple key of _hill_key, compared as Python "
          "compares tuples, is a strict total order (generic lemma: the lexicographic product of strict total orders is "
          "one) and equals the documented order written out - carbon, hydrogen, then by symbol, isotopes by mass number, "
          "ions by charge (the 0/0/1 flag plus the symbol comparison puts C before H); a kernel-evaluated sweep over the "
          "element table regenerated from /repo shows one symbol names one atomic number and none is D or T, so for table "
          "atoms equal (symbol, mass number, charge) means the same atom.  For EVERY dictionary the Hill structure is "
          "flat, holds exactly the dictionary's keys, holds for every atom its total count, and no atom is followed by a "
          "smaller one (strictly increasing when keys are distinct); for every structure of any nesting the Hill form has "
          "exactly the structure's atom counts.  Canonical: dictionaries with the same key set and equal values have "
          "identical Hill structures (insertion sort yields the unique sorted permutation), in particular after "
          "reordering a structure or writing a group out with its multiplier distributed; so f.hill == g.hill.  "
          "Idempotent: f.hill.hill = f.hill.  A tuple-typed flat formula whose distinct atoms are in Hill order equals "
          "its own Hill form (and a list-typed Hill structure never would).  Tie: random atom multisets of 2-8 atoms "
          "(C, H, D, T, several charge states of one element, isotopes, isotope ions), every permutation when <= 5 atoms "
          "else 30 random orders, random nestings with exact power-of-two multipliers and repeated atoms; for every "
          "formula f.hill.structure, its sequence type, str(f.hill), f.hill.density, f.hill.hill == f.hill, f.hill == "
          "g.hill for pairs (including a formula with one count changed), and p == p.hill for formulas parsed from a "
          "string written in independently computed Hill order, are compared with the model evaluated inside Coq.  The "
          "property's own statements are also evaluated directly on the implementation with an order recomputed from "
          "symbol, mass number and charge."),
    note=("Modelled not verified: Python's sorted() (as a stable insertion sort), tuple and str comparison, dict insertion "
          "order, '%g' (compared only for counts it prints exactly), the parser for the ordered strings (its output "
          "structure is an input of the model)."),
    technique="Coq proof (order theory, permutation/sortedness induction, nested-fragment induction, kernel-evaluated table sweep) + differential run of the model over all orderings",
    ref="DESIGN.md section 7 C19")

# which direct finding explains which kind of model/implementation disagreement
EXPLAINS = {
    "hill-kind": ["C19:hill-structure-is-list"],
    "ordered-own-hill": ["C19:hill-structure-is-list", "C19:hill-order-ignores-charge", "C19:ordered-not-own-hill"],
    "hill-structure": ["C19:hill-order-ignores-charge", "C19:hill-order-isotopes", "C19:hill-order", "C19:hill-atoms-differ"],
    "hill-equality": ["C19:hill-order-ignores-charge", "C19:hill-not-canonical"],
    "hill-str": ["C19:hill-order-ignores-charge", "C19:hill-order-isotopes", "C19:hill-order"],
    "hill-idempotent": ["C19:hill-not-idempotent"],
    "hill-density": [],
}
NEEDS_TIE = ("C19:hill-order-ignores-charge",)


def sizes(tier):
    return 300 if tier == "quick" else 5000


def par_diag(sub, chunk=12):
    """vlib.run_diag on chunks in parallel (one coqc each)"""
    from concurrent.futures import ThreadPoolExecutor
    parts = [sub[k:k + chunk] for k in range(0, len(sub), chunk)]
    with ThreadPoolExecutor(max_workers=vlib.NPROC) as ex:
        res = list(ex.map(lambda kp: vlib.run_diag("C19d%d" % kp[0], PRE, CT, kp[1], "diag_all", timeout=900),
                          enumerate(parts)))
    import os
    for k in range(len(parts)):
        try:
            os.remove(os.path.join(vlib.COQ, "Run", "C19d%d_diag.v" % k))
        except OSError:
            pass
    out = []
    for part, r in zip(parts, res):
        out.extend(r if len(r) == len(part) else ["no-diagnosis"] * len(part))
    return out


def run(ctx):
    proved = vlib.prove(ctx)
    quick = ctx.tier == "quick"
    nsets = sizes(ctx.tier)
    data = vlib.run_harness("c19.py", [ctx.seed, nsets], timeout=3000)
    cases, meta, direct, stats = data["cases"], data["meta"], data["direct_fails"], data["stats"]
    ctx.cov["rule"] = ("%d random atom multisets of 2..8 distinct atoms (C, H, D, T, 2-3 charge states of one element, "
                       "isotopes, isotope ions, D/T ions, others from the whole table), dyadic-exact counts; all permutations "
                       "when <= 5 atoms, else 30 random orders; random nesting depth 0..3 with multipliers 1, 2, 4, 0.5 and "
                       "repeated atoms; plus one formula with a changed count and 1-2 formulas parsed from strings written in "
                       "Hill order; non-trivial = multiset with >= 2 atoms (every case); stats: %s" % (nsets, stats))
    ctx.cov["samples"] = meta[:3]
    ctx.cov["evaluations"] = stats["formulas"] + stats["pairs"] + stats["ordered"]
    ctx.cov["distinct_nontrivial"] = len(set(m["atoms"] for m in meta))
    ctx.assumptions = ["counts are dyadic with few bits, so every float product/sum in _count_atoms is exact and structures are compared exactly",
                       "str(f.hill) is compared when every count prints exactly under %g (all generated counts do)",
                       "f.hill.density compared with tolerance 2^-40 relative"]
    sigs = set(d["signature"] for d in direct)
    for d in direct:
        ctx.report(d["signature"], "%s  [%d such inputs in this run]" % (d["what"], d["count"]), dict(input=d))
    if not proved:
        kind, msg = ctx.broken
        ctx.note("%s broke: %s" % (kind, msg))
        if not direct:
            ctx.report("C19:" + kind, "%s no longer checks: %s" % (kind, msg), dict(obligation=kind, detail=msg), found_input=False)
        return
    n_ok, fails, logs, extra = vlib.run_shards("C19", PRE, CT, cases, "check_all", shard=20 if quick else 60,
                                               extra_eval="Eval vm_compute in str_covered cases.")
    for l in logs:
        ctx.note(l)
    ctx.cov["model_agreed"] = n_ok
    mk = re.search(r"= (\d+)%N", extra[0]) if extra else None
    if mk:
        ctx.cov["str_compared_in_first_shard"] = int(mk.group(1))
    if fails:
        sub = fails[:400]
        diags = par_diag([cases[i] for i in sub])
        unexplained = []
        kinds = {}
        for i, dg in zip(sub, diags):
            for k in dg.split():
                kinds[k] = kinds.get(k, 0) + 1
                by = [s for s in EXPLAINS.get(k, []) if s in sigs and (s not in NEEDS_TIE or meta[i]["charge_tie"])]
                if not by:
                    unexplained.append((meta[i]["atoms"], k))
            if not dg.split():
                unexplained.append((meta[i]["atoms"], dg or "no diagnosis"))
        ctx.note("model/implementation disagree on %d of %d multisets; kinds of observation (first %d): %s"
                 % (len(fails), len(cases), len(sub), kinds))
        if unexplained:
            ctx.report("C19:correspondence", "Hill model and implementation disagree (%s) on atoms %s and %d more observations, "
                       "and no failing input of the property explains it" % (unexplained[0][1], unexplained[0][0], len(unexplained) - 1),
                       dict(obligation="correspondence C19 (Model/Formula.v f_hill vs Formula.hill)",
                            cases=[dict(atoms=a, kind=k) for a, k in unexplained[:10]]), found_input=False)


def replay(path):
    import json
    doc = json.load(open(path))
    print("replay: recorded: %s" % doc.get("what"))
    data = vlib.run_harness("c19.py", [int(doc.get("seed", 0)), sizes(doc.get("tier", "quick"))])
    hit = [d for d in data["direct_fails"] if d["signature"] == doc.get("signature")]
    if hit:
        print("REPRODUCED: %s" % hit[0]["what"])
        return 1
    print("not reproduced on the current tree")
    return 0
