"""C03 — neutron SLD, cross sections and penetration depth follow the documented equations."""
import json, os
import vlib

PRE = """From Coq Require Import ZArith QArith String List.
From PT Require Import Str Dec Py Loaders Formula AtomEnv Nsf IExpr Neutron NsfCalc NeutronData NeutronEval C03Check.
Import ListNotations."""
CT = "c03case"

MANIFEST = dict(
    text=("Theorems (Props/C03.v; axioms: the standard library's classical reals, classic, functional extensionality): "
          "for EVERY structure (any nesting), density (density= or natural_density=) and list of wavelengths or energies, "
          "each of the seven numbers returned by the code-shaped model of neutron_scattering (sums in dict order, "
          "numpy.interp on the wavelength-ordered energy tables with end clamping decided exactly on rationals, the "
          "natural-Lu abundance mix, _calculate_scattering) EQUALS, as a real number, the documented 'full scattering "
          "equations' (Spec/Neutron.v, written from the docstring with every unit factor) evaluated on the tabulated "
          "b_c, absorption, total and masses (C03_model_refines_spec; field/lra/sqrt lemmas), given data facts that a "
          "kernel-evaluated sweep establishes for every record of the regenerated table (C03_table_records_ok); "
          "interpolation laws for any strictly increasing abscissae (node, clamped left/right, between, affine mix) and "
          "their applicability to the regenerated tables; an element or isotope queried directly equals its one-atom "
          "compound at the atom's density for any tables; None iff some atom has no tabulated scattering length "
          "(C03_none_iff_missing_data; the former counterexample RaO3 has values since repair 50375e9: "
          "C03_radium_compound_has_values).  Data consistency: every row of the regenerated Lynn & Seeger tables has "
          "| |a| - sqrt(Re^2+Im^2) | <= 0.0125 (C03_energy_tables_modulus_consistent_partial, a sweep over Gen that a "
          "mis-typed cell breaks) except natural Eu at 0.37 eV (C03_energy_tables_modulus_consistent_refuted; known finding).  Tie: Gen/NsfTables.v, Gen/NeutronConsts.v (ENERGY_FACTOR, VELOCITY_FACTOR, "
          "_4PI_100 as source expressions) regenerated from /repo each run; differential run of model AND spec (rigorous "
          "interval enclosures by Coq-Interval under vm_compute, 2^-30 relative to the sum of |terms|) against the "
          "implementation on compounds over all atoms with neutron data."),
    note=("Modelled not verified: numpy broadcasting/np.interp (modelled as linear scan with exact decisions), float "
          "rounding (covered by the 2^-30 allowance; incoherent SLD compared in the squared domain because sqrt is "
          "ill-conditioned at 0).  The check-side evaluator (Model/NeutronEval.v) uses Coq-Interval's BigInt backend "
          "with memoisation; no theorem depends on it."),
    technique="Coq proof over R (refinement model -> documented equations; finite sweeps by vm_compute) + differential interval evaluation of model and spec",
    ref="DESIGN.md section 7 C03")


def sizes(ctx):
    return 600 if ctx.tier == "quick" else 12000


def run(ctx):
    proved = vlib.prove(ctx)
    data = vlib.run_harness("c03.py", [ctx.seed, sizes(ctx), ctx.tier], timeout=6000)
    cases, meta, st = data["cases"], data["meta"], data["stats"]
    cases = ["CConsts"] + cases
    meta = [dict(call="regenerated constants", tag="consts")] + meta
    ctx.cov["rule"] = ("every atom with an SLD (%d) as one-atom compound at its own density and by direct "
                       "atom.neutron.scattering(); energy-table atoms (%d) at table nodes, both clamped ends, energy=; random "
                       "nested compounds over all atoms with data (ions, mixtures of energy-dependent and ordinary atoms), "
                       "density in (0,25] by density= or natural_density=, wavelength in [0.05,50] or energy=, scalar/vector; "
                       "None path; non-trivial = distinct call text; oracle = interval enclosure of the documented equations "
                       "and of the model; stats: %s; atoms with SLD not covered: %s"
                       % (data["n_with_sld"], data["n_tables"], st, data["atoms_not_covered"]))
    ctx.cov["samples"] = [meta[i]["call"] for i in (1, len(meta) // 2, len(meta) - 5)]
    ctx.cov["evaluations"] = len(cases)
    ctx.cov["distinct_nontrivial"] = len(set(m["call"] for m in meta))
    ctx.assumptions = ["tolerance 2^-30 relative to the sum of absolute values of the terms (DESIGN 3.2)",
                       "sld_inc compared in the squared domain"]
    if data["atoms_not_covered"]:
        ctx.report("C03:coverage", "atoms with an SLD not exercised: %s" % data["atoms_not_covered"],
                   dict(obligation="coverage"), found_input=False)
    seen = set()
    for d in data["direct_fails"]:
        if d["signature"] in seen:
            continue
        seen.add(d["signature"])
        ctx.report(d["signature"], d["what"], dict(input=d, how="tools/harness/c03.py %d %d %s" % (ctx.seed, sizes(ctx), ctx.tier)))
    if not proved:
        kind, msg = ctx.broken
        ctx.note("%s broke: %s" % (kind, msg))
        if not data["direct_fails"]:
            ctx.report("C03:" + kind, "%s no longer checks: %s" % (kind, msg), dict(obligation=kind, detail=msg), found_input=False)
        return
    n_ok, fails, logs, _ = vlib.run_shards("C03", PRE, CT, cases, "check_all", shard=120 if ctx.tier == "quick" else 400)
    for l in logs:
        ctx.note(l)
    ctx.cov["model_agreed"] = n_ok
    if fails:
        explain(ctx, "C03", cases, meta, fails, data["direct_fails"])


def explain(ctx, pid, cases, meta, fails, direct):
    """classify model/spec disagreements found by the Coq check"""
    diags = vlib.run_diag(pid, PRE, CT, [cases[i] for i in fails[:40]], "diag_all")
    direct_calls = set(d.get("call") for d in direct)
    unexplained = []
    for i, dg in zip(fails[:40], diags):
        call = meta[i]["call"]
        parts = dg.split(" ") if dg else []
        only_spec = dg and all(p.startswith("spec") or p in ("atoms", "without", "tabulated", "b_c") for p in parts)
        if call in direct_calls:
            continue  # the direct evaluation of the property already reported this input
        if only_spec:
            # the implementation agrees with the model but not with the documented equations
            ctx.report("%s:differs-from-documented-equations:%s" % (pid, parts[0]),
                       "%s: the implementation (and the model) disagree with the documented equations in: %s" % (call, dg),
                       dict(call=call, case=cases[i], diag=dg))
        else:
            unexplained.append((i, dg))
            ctx.note("model/implementation disagree on %s: %s" % (call, dg))
    if len(fails) > 40:
        ctx.note("%d further disagreeing cases not diagnosed" % (len(fails) - 40))
    if unexplained and not direct:
        i, dg = unexplained[0]
        ctx.report("%s:correspondence" % pid,
                   "model and implementation disagree on %d cases, e.g. %s in [%s]; evaluating the property directly on the "
                   "implementation found no failing input" % (len(unexplained), meta[i]["call"], dg),
                   dict(obligation="correspondence %s (Model/NsfCalc.v vs periodictable.nsf)" % pid,
                        cases=[dict(call=meta[j]["call"], diag=d, case=cases[j]) for j, d in unexplained[:5]]),
                   found_input=False)


def replay(path):
    doc = json.load(open(path))
    sig = doc.get("signature", "")
    case = doc.get("case") or (doc.get("cases") or [{}])[0].get("case")
    if case:
        n_ok, fails, logs, _ = vlib.run_shards("C03", PRE, CT, [case], "check_all")
        if fails:
            print("REPRODUCED: %s" % vlib.run_diag("C03", PRE, CT, [case], "diag_all")[0])
            return 1
        print("not reproduced on the current tree (recorded observation agrees with model and spec)")
        return 0
    nr = 600 if doc.get("tier", "quick") == "quick" else 12000
    data = vlib.run_harness("c03.py", [int(doc.get("seed", 0)), nr, doc.get("tier", "quick")], timeout=6000)
    hit = [d for d in data["direct_fails"] if d["signature"] == sig]
    if hit:
        print("REPRODUCED: %s" % hit[0]["what"])
        return 1
    print("not reproduced on the current tree")
    return 0
