"""C02 — composition arithmetic: atoms, mass, charge and mass fractions are additive."""
import vlib

PRE = """From Coq Require Import ZArith QArith String List.
From PT Require Import Str Dec Py Loaders Formula FormulaMachine AtomEnv Pyparse TableEnv C02Check.
Import ListNotations."""
CT = "bool * list xop * list (list vobs)"

MANIFEST = dict(
    text=("Theorems (Props/C02.v, axiom-free): for structures of ANY nesting the atoms dictionary built by the "
          "transcription of _count_atoms equals the count-weighted sum (structural induction over the nested "
          "fragment type); +, += add and n* scales counts, mass and charge for every rational n (including 0, 1 and "
          "the single-fragment shortcut); mass and charge computed over .atoms equal the structural sums; mass "
          "fractions are count*mass/total and sum to 1 when the mass is non-zero; ions weigh their atom less "
          "charge electron masses, the constant regenerated from constants.py being the recommended value of the "
          "electron mass; on the object machine (heap of Formula objects + variables) every operation that "
          "returns a new formula leaves all existing objects unchanged, += changes only its target, and every "
          "program keeps the machine well-formed (induction over the operation list).  Tie: random programs over "
          "formula(atom|dict|nested|Formula), +, n*, +=, aliasing; after every step every live variable's structure, "
          "sequence kind, density, name, mass, charge, fraction sum and the id()-aliasing partition are compared with "
          "the model (exactly on the dyadic stream, 2^-40 relative on the decimal stream)."),
    note="Modelled not verified: CPython object identity/copy(), float arithmetic (covered by the tolerance).",
    technique="Coq proof by structural induction (nested fragments, operation lists) + differential run of the object-machine model",
    ref="DESIGN.md section 7 C02")


def run(ctx):
    proved = vlib.prove(ctx)
    quick = ctx.tier == "quick"
    nprog, maxlen = (600, 10) if quick else (3000, 20)
    data = vlib.run_harness("c02.py", [ctx.seed, nprog, maxlen], timeout=3000)
    cases, meta = data["cases"], data["meta"]
    ctx.cov["rule"] = ("random programs (2..%d steps) over formula(string|atom|dict|nested|Formula), +, n*, +=, aliasing; atoms drawn "
                       "from all elements/isotopes/ions/isotope ions; 2/3 dyadic-exact stream, 1/3 decimal stream; "
                       "non-trivial = program text distinct; stats: %s" % (maxlen, data["stats"]))
    ctx.cov["samples"] = [meta[i] for i in range(min(3, len(meta)))]
    ctx.cov["evaluations"] = len(cases)
    ctx.cov["distinct_nontrivial"] = len(set("; ".join(m) for m in meta))
    ctx.assumptions = ["exact stream: counts are dyadic so every float product/sum is exact", "decimal stream: tolerance 2^-40 relative"]
    for d in data["direct_fails"]:
        ctx.report(d["signature"], d["what"], dict(input=d))
    if not proved:
        kind, msg = ctx.broken
        if not data["direct_fails"]:
            ctx.report("C02:" + kind, "%s no longer checks: %s" % (kind, msg), dict(obligation=kind, detail=msg), found_input=False)
        return
    n_ok, fails, logs, _ = vlib.run_shards("C02", PRE, CT, cases, "check_all", shard=60 if quick else 50, timeout=1500)
    for l in logs:
        ctx.note(l)
    ctx.cov["model_agreed"] = n_ok
    if fails:
        diags = vlib.run_diag("C02", PRE, CT, [cases[i] for i in fails[:6]], "diag_all")
        for i, dg in zip(fails[:6], diags):
            ctx.note("model/implementation disagree at %s of program: %s" % (dg, "; ".join(meta[i])))
        if not data["direct_fails"]:
            ctx.report("C02:correspondence", "object-machine model and implementation disagree on %d programs, e.g. at %s of: %s; "
                       "the direct additivity checks on the implementation found no failing input"
                       % (len(fails), diags[0] if diags else "?", "; ".join(meta[fails[0]])),
                       dict(obligation="correspondence C02 (Model/FormulaMachine.v vs periodictable.formulas)",
                            programs=[meta[i] for i in fails[:5]]), found_input=False)


def replay(path):
    import json
    doc = json.load(open(path))
    print("replay: re-run ./check C02 %s with VERIF_SEED=%s; recorded: %s" % (doc.get("tier"), doc.get("seed"), doc.get("what")))
    ctx = vlib.Ctx("C02", doc.get("tier", "quick"), int(doc.get("seed", 0)))
    data = vlib.run_harness("c02.py", [ctx.seed, 600, 10])
    hit = [d for d in data["direct_fails"] if d["signature"] == doc.get("signature")]
    print("REPRODUCED" if hit else "not reproduced")
    return 1 if hit else 0
