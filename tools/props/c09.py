"""C09 — lazy loading is invisible: served values do not depend on the order of first touches."""
import json, os, re
import vlib

PRE = """From Coq Require Import ZArith String List.
From PT Require Import Str Py AttrScript LoaderScripts Attr C09Check.
Import ListNotations.
Open Scope string_scope."""
CT = "hcase"

# signatures under which witnesses of `_refuted` theorems show up on the implementation: none since the repairs
# 706f0ce / 9478875 (before them: C09:direct-init_spectral_lines-first and
# C09:private-init-before-public-touch:{nsf,covalent_radius,crystal_structure,init_spectral_lines})
REFUTED = {}

MANIFEST = dict(
    text=("Model (Model/Attr.v): small-step semantics of the Python attribute protocol the loaders rely on - class-level "
          "maps of Element/Isotope/Ion (pending delayed-load property | computed property | constant | allocated default), "
          "instance dictionaries of representative atoms of up to three tables, data-descriptor precedence on get and set, "
          "__getattr__ delegation Isotope/Ion -> element, delayed_load's getter/setter/clearprops - driven by the loader "
          "scripts that tools/gens/loaders.py regenerates from /repo (ordered attribute effects of the nine init functions, "
          "the seven registrations, getfn/setfn statement lists; fail closed).  Theorems (Props/C09.v, axiom-free), at full "
          "strength since the repairs 706f0ce and 9478875: over the whole alphabet - public reads through element/isotope/"
          "ion, hasattr probes, submodule imports, calculator calls, EVERY explicit init(elements) including "
          "init_spectral_lines, creation of a private table and every init on it at any time - every observation of the "
          "public table is what the canonical order serves (C09_histories_canonical, C09_reads_canonical; no side condition: "
          "C09_no_side_condition); the invariant is membership in per-group reachable sets computed and checked closed by "
          "vm_compute (60 abstract states); the histories that broke the public table before the repairs are proved "
          "canonical now (C09_former_witnesses_canonical).  Tie: one fresh interpreter per history; all per-group sequences "
          "of first touches up to length 2 (quick) / 3 (thorough), random histories, every submodule import, in thorough one "
          "witness history per (reachable abstract state, action) pair; every event's outcome compared with the model's run "
          "inside coqc; the digest comparison with the canonical order is the property itself and yields minimised failing "
          "histories."),
    note=("Modelled, not verified: CPython attribute lookup (descriptors, instance dict, __getattr__), import side effects; "
          "values are abstracted to their provenance (row data / class default / user value / computed) plus object identity; "
          "one representative atom per {covered, uncovered} x {element, isotope, ion} (harness checks the coverage); "
          "init(table, reload=True) is outside the alphabet."),
    technique="Coq proof: invariant over a finite abstract state space (closure checked by vm_compute); "
              "differential run of the state-machine model against fresh interpreters",
    ref="DESIGN.md section 7 C09")


def report_direct(ctx, data):
    for d in data["direct_fails"]:
        if d["signature"].startswith("C09:calculator-as-first-touch"):
            ctx.report(d["signature"] + ":" + d.get("calc", "")[:40], d["what"], dict(calc=d.get("calc"), history_text=d["history_text"],
                       how="PYTHONPATH=/repo /venv/bin/python tools/harness/c09calc.py --child first '<calc>' against --child after '<calc>'"))
            continue
        if d["signature"].startswith("C09:atom-order"):
            ctx.report(d["signature"], d["what"], dict(history=d["history"], history_text=d["history_text"], pair=d.get("pair"),
                                                       how="./check C09 --replay <this file> reads the two values in two fresh interpreters"))
            continue
        ctx.report(d["signature"], d["what"], dict(history=d["history"], history_text=d["history_text"],
                                                   outcomes=d["outcomes"], refuted_theorem=REFUTED.get(d["signature"]),
                                                   how="./check C09 --replay <this file> re-runs the history in a fresh interpreter"))


def transition_witnesses(ctx, cap):
    """thorough tier: one witness history per (reachable abstract state of a group, admitted action of the group's
    alphabet), computed by the model inside coqc; returns (path of a JSON file with the histories, n_pairs, n_used)"""
    with vlib.Lock():
        ok, log = vlib.make(["Model/AttrWitness.vo"], timeout=2400)
    if not ok:
        ctx.note("transition witnesses not built: " + log[-300:])
        return None, 0, 0
    rundir = os.path.join(vlib.COQ, "Run")
    os.makedirs(rundir, exist_ok=True)
    name = "C09_witness"
    with open(os.path.join(rundir, name + ".v"), "w") as f:
        f.write("From Coq Require Import String List NArith.\nFrom PT Require Import Attr AttrReach AttrWitness AttrWitness.\n"
                + "".join('Eval vm_compute in (String.concat "|" (witness_strings09 %d%%N)).\n' % g for g in range(8)))
    rc, out = vlib.sh("ulimit -s unlimited 2>/dev/null; timeout 1800 coqc -Q . PT -w -all Run/%s.v" % name,
                      cwd=vlib.COQ, timeout=1900)
    for fn in os.listdir(rundir):
        if fn.startswith(name) and not fn.endswith(".v"):
            os.remove(os.path.join(rundir, fn))
    if rc != 0:
        ctx.note("transition witnesses did not evaluate: " + out[-300:])
        return None, 0, 0
    hs = []
    for hs_txt in [x for m in re.finditer(r'"((?:[^"]|"")*)"', out) for x in m.group(1).replace("\n", "").split("|")]:
        h = [e.split(",") for e in hs_txt.split(";") if e]
        if not h:
            continue
        # table[0] stands for itself only in the covalent_radius group (Model/Attr.v)
        if any(e[0] in ("read", "has", "set", "mut") and e[2] == "En" and not e[3].startswith("covalent_radius") for e in h):
            continue
        hs.append(h)
    uniq = sorted(set(json.dumps(h) for h in hs))
    n = len(uniq)
    if len(uniq) > cap:
        ctx.rng.shuffle(uniq)
        uniq = sorted(uniq[:cap])
    path = os.path.join(vlib.ROOT, "coq", "Run", name + ".json")
    with open(path, "w") as f:
        f.write("[" + ",".join(uniq) + "]")
    return path, n, len(uniq)


def spill(ctx):
    """vlib.Ctx.finish prints and writes replay files for the first five violations only; the further ones are
    written and printed here in the same format (they are counted by finish())."""
    seen, n = set(), 0
    for sig, what, replay, found in ctx.violations:
        if sig in seen:
            continue
        seen.add(sig)
        n += 1
        if n <= 5:
            continue
        path = os.path.join("replay", "C09-%d.json" % n)
        doc = dict(property="C09", signature=sig, what=what, seed=ctx.seed, tier=ctx.tier, found_failing_input=found)
        doc.update(replay)
        os.makedirs(os.path.join(vlib.ROOT, "replay"), exist_ok=True)
        with open(os.path.join(vlib.ROOT, path), "w") as f:
            json.dump(doc, f, indent=1, default=str)
        print("VIOLATION property=C09 replay=%s%s" % (path, "" if found else " no-failing-input-found"))
        print("  -> %s" % what)


def unexplained(ctx, data):
    """True when no failing input outside the recorded refutations / known findings was found"""
    return not [d for d in data["direct_fails"] if d["signature"] not in REFUTED and not ctx.signature_known(d["signature"])]


def run(ctx):
    try:
        _run(ctx)
    finally:
        spill(ctx)


def _run(ctx):
    proved = vlib.prove(ctx)
    quick = ctx.tier == "quick"
    args = [ctx.seed, ctx.tier]
    if not quick and proved:
        wpath, npairs, nused = transition_witnesses(ctx, 6000)
        if wpath:
            args += [1500, wpath]
            ctx.cov["transition_coverage"] = dict(pairs=npairs, histories_run=nused)
    data = vlib.run_harness("c09.py", args, timeout=20000)
    # breadth over atoms: every lazy value of every element read in several orders (tools/harness/c09order.py)
    try:
        od = vlib.run_harness("c09order.py", [ctx.seed, ctx.tier], timeout=6000)
        data["direct_fails"].extend(od["direct_fails"])
        ctx.cov["atom_orders"] = od["stats"]
    except Exception as e:  # noqa
        ctx.note("atom-order stream did not run: %s" % str(e)[:300])
    # breadth over entry points: every calculator as the very first touch of a fresh interpreter (tools/harness/c09calc.py)
    try:
        cd = vlib.run_harness("c09calc.py", [ctx.seed, ctx.tier], timeout=6000)
        data["direct_fails"].extend(cd["direct_fails"])
        ctx.cov["calculators_as_first_touch"] = cd["stats"]
    except Exception as e:  # noqa
        ctx.note("calculator stream did not run: %s" % str(e)[:300])
    cases, meta, st = data["cases"], data["meta"], data["stats"]
    ctx.cov["rule"] = ("one fresh interpreter per history; per property group every sequence of first touches (read via "
                       "element/isotope/ion, hasattr, calculator, import, init(elements), init(private)) of length <= %d, "
                       "packed one group per slot; every single first touch alone; every submodule import alone; random "
                       "histories over the %d-event alphabet (length <= %d); each followed by reads of every lazy name on "
                       "three atoms; non-trivial = distinct history; oracle = Model/Attr.v run inside coqc + the canonical "
                       "order's digests; stats: %s" % (2 if quick else 3, st["alphabet"], 12 if quick else 40, st))
    ctx.cov["evaluations"] = st["events"]
    ctx.cov["histories"] = st["histories"]
    ctx.cov["distinct_nontrivial"] = st["distinct"]
    ctx.cov["samples"] = [meta[i][:8] for i in range(min(3, len(meta)))]
    ctx.cov["reachable_abstract_states"] = dict(per_group=[3, 8, 8, 7, 8, 10, 8, 8], total=60)
    ctx.assumptions = ["values are compared through an address-free deep view (digest)",
                       "representative atoms Fe, Rf, Fe-58, Fe-45, Rf-261 and their ions (coverage checked on the implementation)"]
    if st.get("cover_mismatch"):
        ctx.report("C09:representatives", "the representative atoms are no longer covered/uncovered as the model assumes: %s"
                   % st["cover_mismatch"][:3], dict(obligation="representative atoms", detail=st["cover_mismatch"]), found_input=False)
    report_direct(ctx, data)
    ctx.cov["refuted_witnesses_replayed"] = sorted(set(d["signature"] for d in data["direct_fails"] if d["signature"] in REFUTED))
    if not proved:
        kind, msg = ctx.broken
        ctx.note("%s broke: %s" % (kind, msg[:300]))
        if unexplained(ctx, data):
            ctx.report("C09:" + kind, "%s no longer checks: %s" % (kind, msg), dict(obligation=kind, detail=msg), found_input=False)
        return
    n_ok, fails, logs, _ = vlib.run_shards("C09", PRE, CT, cases, "check_all", shard=40 if quick else 100)
    for l in logs:
        ctx.note(l)
    ctx.cov["model_agreed"] = n_ok
    if fails:
        diags = vlib.run_diag("C09", PRE, CT, [cases[i] for i in fails[:6]], "diag_all")
        for i, dg in zip(fails[:6], diags):
            m = re.match(r"event (\d+)", dg)
            k = int(m.group(1)) if m else 0
            ctx.note("model/implementation disagree at %s of history: %s" % (dg, "; ".join(meta[i][:k + 1][-8:])))
        if unexplained(ctx, data):
            ctx.report("C09:correspondence", "the attribute-protocol model and the implementation disagree on %d histories, e.g. at "
                       "%s; the digest comparison found no failing history beyond the recorded refutations"
                       % (len(fails), diags[0] if diags else "?"),
                       dict(obligation="correspondence C09 (Model/Attr.v + Gen/LoaderScripts.v vs periodictable)",
                            histories=[meta[i] for i in fails[:3]], diagnosis=diags[:6]), found_input=False)
    # the refutation witnesses must show on the implementation (else the model no longer describes it)
    missing = [s for s in REFUTED if s not in [d["signature"] for d in data["direct_fails"]]]
    if missing and not fails:
        ctx.note("refutation witnesses that did not show on the implementation: %s" % missing)
        ctx.report("C09:refutation-stale", "the model refutes the full statement through %s but the implementation no longer fails "
                   "there: the _refuted theorems must be replaced by the full theorem" % missing,
                   dict(obligation="refutation witnesses replay", missing=missing), found_input=False)


def replay(path):
    doc = json.load(open(path))
    if doc.get("pair"):
        res = vlib.run_harness("c09order.py", ["--pair", json.dumps(doc["pair"])], timeout=600)
        if res["reproduced"]:
            print("REPRODUCED: %s (differs: %s)" % (doc.get("what"), res["differs"][:4]))
            return 1
        print("not reproduced on the current tree")
        return 0
    if not doc.get("history"):
        print("replay: %s records an obligation (%s); re-run ./check C09 %s" % (path, doc.get("what", "")[:200], doc.get("tier", "quick")))
        return 0
    res = vlib.run_harness("c09replay.py", [os.path.abspath(path)], timeout=600)
    for t, o in zip(res["history_text"], res["outcomes"]):
        print("  %-60s -> %s" % (t, o))
    if res["reproduced"]:
        print("REPRODUCED: %s" % doc.get("what"))
        return 1
    print("not reproduced on the current tree")
    return 0
