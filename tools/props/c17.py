"""C17 — the composite SLD calculator equals the direct calculation on the weighted sum."""
import json
import vlib

PRE = """From Coq Require Import ZArith QArith String List.
From PT Require Import Str Dec Py Loaders Formula AtomEnv Nsf IExpr Neutron NsfCalc NeutronData NeutronEval C03Check C17Calc C17Check.
Import ListNotations."""
CT = "c17case"

MANIFEST = dict(
    text=("Theorems (Props/C17.v; axioms: the standard library's classical reals, classic, functional extensionality): "
          "for EVERY list of materials (repeats, shared atoms, energy-dependent isotopes), weights >= 0 not all zero, "
          "density > 0 and wavelength, the real, imaginary and incoherent SLD returned by the code-shaped model of "
          "_sum_piece + _compute (which carries its own copy of the scattering formulas, transcribed separately) are "
          "the documented equations on the unit cell with per-atom totals sum_i w_i*(totals of material i) "
          "(C17_composite_is_documented_sld) and therefore equal the model of the direct neutron_sld on any formula "
          "with those totals (C17_composite_equals_direct), in particular on w_1*m_1+...+w_k*m_k as Formula.__rmul__/"
          "__add__ build it (C17_sum_formula_totals); the proof goes through 'a sum over (atom,count) entries is "
          "determined by the per-atom totals whatever the order, splitting or repetition' (C17_sums_determined_by_totals, "
          "strong induction); zero total mass or zero density gives zeros; one result per wavelength.  Tie: 1..6 materials, "
          "weights with zeros, density >= 0, scalar/length-1/length-n wavelengths; composite result compared in Coq with "
          "the model of _compute and with the documented equations on the sum formula, the direct neutron_sld with model "
          "and spec as in C03, the sum formula's totals with the weighted totals; the two implementation routes compared "
          "directly."),
    note=("Modelled not verified: numpy broadcasting (weights[:, None]); float rounding (2^-30 allowance; composite vs direct "
          "1e-12).  Observation recorded, not counted as a violation: for zero total weight or zero density both routes "
          "return the int tuple (0, 0, 0) also when the wavelength argument is a vector."),
    technique="Coq proof over R (strong induction over entry lists, field) + differential interval evaluation of both routes",
    ref="DESIGN.md section 7 C17")


def sizes(ctx):
    return 800 if ctx.tier == "quick" else 10000


def run(ctx):
    proved = vlib.prove(ctx)
    data = vlib.run_harness("c17.py", [ctx.seed, sizes(ctx), ctx.tier], timeout=6000)
    cases, meta, st = data["cases"], data["meta"], data["stats"]
    ctx.cov["rule"] = ("1..6 materials (random nested compounds over all atoms with data; 30%% carry an energy-dependent atom; "
                       "repeated materials), weights from {0,1,2,3,0.5,random} with forced zeros and all-zero vectors, density "
                       "in [0,25], wavelength default/scalar/length-1/length-n (list or ndarray); non-trivial = distinct call; "
                       "oracle = interval enclosures of model and documented equations + the direct neutron_sld; stats: %s" % st)
    ctx.cov["samples"] = [meta[i]["call"] for i in (0, len(meta) // 2, len(meta) - 1)]
    ctx.cov["evaluations"] = len(cases)
    ctx.cov["distinct_nontrivial"] = len(set(m["call"] for m in meta))
    ctx.assumptions = ["composite vs direct on the implementation: 1e-12 relative to the sum of |terms| (squared domain for sld_inc)",
                       "each route vs model/spec: 2^-30 relative (DESIGN 3.2)",
                       "zeros for zero weight/density are accepted as scalars whatever the wavelength shape"]
    seen = set()
    for d in data["direct_fails"]:
        if d["signature"] in seen:
            continue
        seen.add(d["signature"])
        ctx.report(d["signature"], d["what"], dict(input=d, how="tools/harness/c17.py %d %d %s" % (ctx.seed, sizes(ctx), ctx.tier)))
    if not proved:
        kind, msg = ctx.broken
        ctx.note("%s broke: %s" % (kind, msg))
        if not data["direct_fails"]:
            ctx.report("C17:" + kind, "%s no longer checks: %s" % (kind, msg), dict(obligation=kind, detail=msg), found_input=False)
        return
    n_ok, fails, logs, _ = vlib.run_shards("C17", PRE, CT, cases, "check_all17", shard=50 if ctx.tier == "quick" else 200)
    for l in logs:
        ctx.note(l)
    ctx.cov["model_agreed"] = n_ok
    if fails:
        diags = vlib.run_diag("C17", PRE, CT, [cases[i] for i in fails[:20]], "diag_all17")
        direct_calls = set(d.get("call") for d in data["direct_fails"])
        unexplained = []
        for i, dg in zip(fails[:20], diags):
            call = meta[i]["call"]
            if call in direct_calls:
                continue
            parts = [p.strip() for p in dg.split(";") if p.strip()]
            if parts and all(p.startswith("composite vs documented") or p.startswith("direct spec") for p in parts):
                ctx.report("C17:differs-from-documented-equations", "%s: %s" % (call, dg), dict(call=call, case=cases[i], diag=dg))
            else:
                unexplained.append((i, dg))
                ctx.note("model/implementation disagree on %s: %s" % (call, dg))
        if unexplained and not data["direct_fails"]:
            i, dg = unexplained[0]
            ctx.report("C17:correspondence", "model and implementation disagree on %d cases, e.g. %s in [%s]; the two "
                       "implementation routes agree with each other" % (len(unexplained), meta[i]["call"], dg),
                       dict(obligation="correspondence C17 (Model/C17Calc.v vs nsf.neutron_composite_sld)",
                            cases=[dict(call=meta[j]["call"], diag=d, case=cases[j]) for j, d in unexplained[:5]]),
                       found_input=False)


def replay(path):
    doc = json.load(open(path))
    case = doc.get("case") or (doc.get("cases") or [{}])[0].get("case")
    if case:
        n_ok, fails, logs, _ = vlib.run_shards("C17", PRE, CT, [case], "check_all17")
        if fails:
            print("REPRODUCED: %s" % vlib.run_diag("C17", PRE, CT, [case], "diag_all17")[0])
            return 1
        print("not reproduced on the current tree")
        return 0
    n = 800 if doc.get("tier", "quick") == "quick" else 10000
    data = vlib.run_harness("c17.py", [int(doc.get("seed", 0)), n, doc.get("tier", "quick")], timeout=6000)
    hit = [d for d in data["direct_fails"] if d["signature"] == doc.get("signature")]
    if hit:
        print("REPRODUCED: %s" % hit[0]["what"])
        return 1
    print("not reproduced on the current tree")
    return 0
