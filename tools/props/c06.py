"""C06 — mass, abundance, density are those of the embedded tables."""
import vlib

PRE = """From Coq Require Import ZArith QArith String List.
From PT Require Import Str Dec Py Loaders C06Check.
Import ListNotations."""
CT = "Z * Z * list pyval"

MANIFEST = dict(
    text=("Theorems (Props/C06.v, closed under the global context): for every element block of the embedded "
          "composition table, run through the Gallina transcription of mass.init on the table text regenerated "
          "from /repo, the abundances sum to exactly 100 over the listed isotopes and over all isotopes; the "
          "abundance-weighted isotope mass is within the stated uncertainty of the atomic weight; unlisted isotopes "
          "have abundance 0; the loader accepts every row; every row names the element it is filed under and the "
          "isotope-mass table has one row per nuclide, in order of (Z, A).  Tie: exhaustive correspondence - all 119 elements and "
          "2940 isotopes x 7 observables, public and private table, implementation value vs model value (bit-exact "
          "for table reads).  A failing input is searched with an independent third reading of the table text."),
    note="Modelled not verified: Python float(), str.split, dict order.",
    technique="Coq proof by kernel-evaluated sweep over regenerated tables + generic loader lemmas; exhaustive model/implementation correspondence",
    ref="DESIGN.md section 7 C06")


def run(ctx):
    proved = vlib.prove(ctx)
    data = vlib.run_harness("c06.py")
    cases, meta = data["cases"], data["meta"]
    ctx.cov["rule"] = ("exhaustive: every element and isotope of the public table and of a freshly initialised "
                       "private table x (mass, _mass_unc, abundance, _abundance_unc, density, number_density, "
                       "interatomic_distance); non-trivial = the nuclide has a mass row (every case); oracle = "
                       "Gallina loader model run on the regenerated table text")
    ctx.cov["exhaustive"] = True
    ctx.cov["samples"] = [dict(table=m[0], Z=m[1], A=m[2], case=c) for m, c in list(zip(meta, cases))[5:8]]
    ctx.assumptions = ["Python float() is correctly rounded (R0)", "tolerance 2^-40 relative for computed values (R2)"]
    fails = []
    if proved:
        n_ok, fails, logs, extra = vlib.run_shards("C06", PRE, CT, cases, "check_all",
                                                   extra_eval="Eval vm_compute in model_keys.")
        for l in logs:
            ctx.note(l)
        ctx.cov["evaluations"] = len(cases)
        ctx.cov["distinct_nontrivial"] = len(set(cases))
        ctx.cov["model_agreed"] = n_ok
        import re
        mk = re.search(r"= (\d+)%N", extra[0]) if extra else None
        if mk and int(mk.group(1)) * 2 != len(cases):
            ctx.report("C06:nuclide-set", "the model loads %s nuclides, each table of the implementation serves %d"
                       % (mk.group(1), len(cases) // 2), dict(obligation="correspondence: set of nuclides"), found_input=False)
    else:
        kind, msg = ctx.broken
        ctx.note("%s broke: %s" % (kind, msg))
    direct = data["direct_fails"]
    # every failing input of the property found on the implementation is reported
    seen = set()
    for d in direct:
        if d["signature"] in seen:
            continue
        seen.add(d["signature"])
        ctx.report(d["signature"], d["what"], dict(input=d, how="PYTHONPATH=/repo python -c 'import periodictable as pt; ...' on atom %s" % d.get("atom")))
    direct_atoms = set((d["table"], d.get("atom")) for d in direct)
    if fails:
        diags = vlib.run_diag("C06", PRE, CT, [cases[i] for i in fails[:8]], "diag_all")
        unexplained = []
        for i, dg in zip(fails[:8], diags):
            ctx.note("model/implementation disagree on %s: %s" % (meta[i], dg))
        for i in fails:
            t, z, a = meta[i]
            hit = [d for d in direct if d["table"] == t and ("%d-" % z in d["signature"] or "Z=%d" % z in d["signature"]
                                                              or d["signature"].startswith("C06:isotope-density"))]
            if not hit:
                unexplained.append(meta[i])
        if unexplained:
            ctx.report("C06:correspondence", "loader model and implementation disagree on %d nuclides (first %s) and "
                       "the direct re-reading of the table found no failing input there" % (len(unexplained), unexplained[0]),
                       dict(obligation="correspondence C06 (Model/Loaders.v vs periodictable.mass/density)",
                            cases=[dict(meta=m) for m in unexplained[:10]]), found_input=False)
    if not proved and not direct:
        kind, msg = ctx.broken
        ctx.report("C06:" + kind, "%s no longer checks: %s" % (kind, msg), dict(obligation=kind, detail=msg), found_input=False)
    elif not proved:
        pass  # failing inputs were found and reported above


def replay(path):
    import json
    doc = json.load(open(path))
    data = vlib.run_harness("c06.py")
    sig = doc.get("signature")
    hit = [d for d in data["direct_fails"] if d["signature"] == sig]
    if hit:
        print("REPRODUCED: %s" % hit[0]["what"])
        return 1
    print("not reproduced on the current tree")
    return 0
