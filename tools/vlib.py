"""Shared machinery of ./check: regeneration, proof build, running the model inside coqc,
verdict protocol, evidence, known findings."""
import fcntl, json, os, re, subprocess, sys, time, hashlib, random, shutil
from concurrent.futures import ThreadPoolExecutor

ROOT = os.path.abspath(os.path.join(os.path.dirname(os.path.abspath(__file__)), ".."))
COQ = os.path.join(ROOT, "coq")
REPO = os.environ.get("VERIF_REPO", "/repo")
PY = "/venv/bin/python"
NPROC = int(os.environ.get("VERIF_JOBS", "16"))
GUARD = "PERIODICTABLE_VERIF"

FORBIDDEN = re.compile(r"\b(Admitted|admit|Axiom|Parameter|Conjecture|Unset Guard|bypass_check|"
                       r"type-in-type|impredicative-set|Admit Obligations)\b")


def impl_env(extra=None):
    env = dict(os.environ)
    env["PYTHONPATH"] = REPO + os.pathsep + os.path.join(ROOT, "tools")
    env["PYTHONHASHSEED"] = "0"
    env["PYTHONDONTWRITEBYTECODE"] = "1"
    env[GUARD] = "1"
    if extra:
        env.update(extra)
    return env


def sh(cmd, timeout=1800, cwd=None, env=None, input=None):
    p = subprocess.run(cmd, shell=isinstance(cmd, str), cwd=cwd, env=env, input=input,
                       stdout=subprocess.PIPE, stderr=subprocess.STDOUT, text=True, timeout=timeout)
    out = "\n".join(l for l in p.stdout.splitlines() if "conda.cli.condarc" not in l)
    return p.returncode, out


class Lock:
    def __enter__(self):
        self.f = open(os.path.join(COQ, ".lock"), "w")
        fcntl.flock(self.f, fcntl.LOCK_EX)
        return self

    def __exit__(self, *a):
        fcntl.flock(self.f, fcntl.LOCK_UN)
        self.f.close()


def regen(pid=None):
    """Regenerate coq/Gen from the working tree.  Returns (ok, message).  A failing generator
    only counts against the properties it serves (`SERVES` of its plug-in; default all)."""
    rc, out = sh([PY, os.path.join(ROOT, "tools", "gen.py")], env=impl_env(), timeout=600)
    if rc == 0:
        return True, ""
    mine = []
    for line in out.splitlines():
        m = re.match(r"translation failed: (\S+) serves=(\S+): (.*)", line)
        if m:
            serves = m.group(2).split(",")
            if pid is None or "*" in serves or pid in serves:
                mine.append(line)
        elif line.strip():
            mine.append(line)
    return (not mine), "\n".join(mine).strip()


def coq_project():
    """(Re)write _CoqProject and Makefile when the set of .v files changed."""
    files = []
    for d in ("Base", "Gen", "Spec", "Model", "Analytic", "Proofs", "Props"):
        p = os.path.join(COQ, d)
        if os.path.isdir(p):
            for f in sorted(os.listdir(p)):
                if f.endswith(".v") and f != "Test.v":
                    files.append("%s/%s" % (d, f))
    text = "-Q . PT\n-arg -w -arg -all\n" + "\n".join(files) + "\n"
    cp = os.path.join(COQ, "_CoqProject")
    old = open(cp).read() if os.path.exists(cp) else None
    if old != text or not os.path.exists(os.path.join(COQ, "Makefile")):
        with open(cp, "w") as f:
            f.write(text)
        rc, out = sh("coq_makefile -f _CoqProject -o Makefile", cwd=COQ)
        if rc != 0:
            raise RuntimeError("coq_makefile failed: " + out)


def make(targets, timeout=3000):
    """Full .vo build of the given targets (never -vos).  Returns (ok, log)."""
    coq_project()
    out = ""
    for attempt in range(8):
        rc, out = sh(["timeout", str(timeout), "make", "-j%d" % NPROC] + targets, cwd=COQ, timeout=timeout + 60)
        if rc == 0:
            return True, out
        # compiled files left behind by an interrupted or out-of-band build: remove the stale ones and retry
        stale = re.findall(r"Compiled library \S+ \(in file (\S+\.vo)\) makes inconsistent assumptions", out)
        stale += [f + "o" for f in re.findall(r"[Cc]orrupted compiled library|(\S+\.v)o: premature end|bad version number", out) if f]
        stale = [f for f in set(stale) if f.startswith(COQ) and os.path.exists(f)]
        if not stale:
            break
        for f in stale:
            os.remove(f)
    return False, out


def forbidden_scan():
    bad = []
    for d in ("Base", "Spec", "Model", "Analytic", "Proofs", "Props", "Gen"):
        p = os.path.join(COQ, d)
        if not os.path.isdir(p):
            continue
        for f in sorted(os.listdir(p)):
            if f.endswith(".v"):
                txt = open(os.path.join(p, f), encoding="utf-8").read()
                # strip comments and string literals before scanning
                txt = re.sub(r'"(?:[^"]|"")*"', '""', txt)
                txt = re.sub(r"\(\*.*?\*\)", "", txt, flags=re.S)
                for m in FORBIDDEN.finditer(txt):
                    bad.append("%s/%s: %s" % (d, f, m.group(0)))
    return bad


def props_file(pid):
    return os.path.join(COQ, "Props", pid + ".v")


def preamble_targets(pid):
    """.vo files named by `From PT[.Dir] Require Import A B ...` in the string constants of tools/props/<pid>.py"""
    mod = sys.modules.get("props." + pid.lower())
    if mod is None:
        return []
    index = {}
    for d in sorted(os.listdir(COQ)):
        dp = os.path.join(COQ, d)
        if os.path.isdir(dp) and d != "Run":
            for f in os.listdir(dp):
                if f.endswith(".v"):
                    index.setdefault(f[:-2], "%s/%s.vo" % (d, f[:-2]))
    out = []
    for val in vars(mod).values():
        if isinstance(val, str) and "From PT" in val:
            for m in re.finditer(r"From PT(?:\.(\w+))? Require (?:Import|Export) ([^.]*)\.", val):
                for name in m.group(2).split():
                    t = "%s/%s.vo" % (m.group(1), name) if m.group(1) else index.get(name)
                    if t and os.path.exists(os.path.join(COQ, t[:-1])) and t not in out:
                        out.append(t)
    return out


def check_props(pid, timeout=1200):
    """Compile Props/<pid>.v (after building its dependencies) and collect the theorems it
    states and the axioms Print Assumptions reports.
    Returns dict(ok, theorems, axioms, log, failed)."""
    pf = props_file(pid)
    src = open(pf, encoding="utf-8").read()
    theorems = re.findall(r"^\s*(?:Theorem|Lemma|Corollary|Example)\s+([A-Za-z0-9_']+)", src, flags=re.M)
    targets = ["Props/%s.vo" % pid]
    # the executable comparison module used by the correspondence run must be rebuilt too
    if os.path.exists(os.path.join(COQ, "Model", pid + "Check.v")):
        targets.append("Model/%sCheck.vo" % pid)
    # ... and so must every library the correspondence files of this property import (their preambles are the
    # string constants of the property module), or a library left from before the last regeneration is loaded
    targets += [t for t in preamble_targets(pid) if t not in targets]
    ok, log = make(targets, timeout=timeout)
    res = dict(ok=ok, theorems=theorems, axioms=[], log=log, failed=None)
    if not ok:
        m = re.search(r'File "([^"]+)", line (\d+)[^\n]*\n(?:.*\n)*?Error:?\s*((?:.*\n?){1,6})', log)
        res["failed"] = (m.group(1) + ":" + m.group(2) + ": " + m.group(3).strip()[:400]) if m else log[-800:]
        return res
    # run coqc on the statement file itself to get Print Assumptions (kernel re-checks the exacts)
    rc, out = sh(["timeout", "600", "coqc", "-Q", ".", "PT", "-w", "-all", "Props/%s.v" % pid], cwd=COQ, timeout=700)
    if rc != 0:
        res["ok"] = False
        res["failed"] = "Props/%s.v: %s" % (pid, out[-600:])
        return res
    axioms = set()
    for blk in re.split(r"\n(?=Axioms:|Closed under)", "\n" + out):
        if blk.startswith("Axioms:"):
            for m in re.finditer(r"^([A-Za-z_][\w.']*)\s*:", blk[len("Axioms:"):], flags=re.M):
                axioms.add(m.group(1))
    res["axioms"] = sorted(axioms)
    res["closed"] = out.count("Closed under the global context")
    return res


# ------------------------------------------------------------------ running the model

def run_shards(pid, preamble, case_type, cases, check_fn, shard=400, timeout=900, extra_eval=None):
    """cases: list of Coq terms (strings).  Writes coq/Run/<pid>_<k>.v, each holding
    `Definition cases : list <case_type> := [...]` and evaluating
    `summary (<check_fn> cases)` with vm_compute.  Returns (n_ok, failing_indices, logs)."""
    rundir = os.path.join(COQ, "Run")
    os.makedirs(rundir, exist_ok=True)
    for f in os.listdir(rundir):
        if f.startswith(pid + "_"):
            os.remove(os.path.join(rundir, f))
    files = []
    for k in range(0, max(len(cases), 1), shard):
        sub = cases[k:k + shard]
        name = "%s_%d" % (pid, k // shard)
        body = [preamble, "Open Scope Z_scope.",
                "Definition cases : list (%s) := [" % case_type,
                ";\n".join(sub), "].",
                "Eval vm_compute in summary (%s cases)." % check_fn]
        if extra_eval and k == 0:
            body.append(extra_eval)
        with open(os.path.join(rundir, name + ".v"), "w") as f:
            f.write("\n".join(body) + "\n")
        files.append((name, k, len(sub)))

    def one(item):
        name, base, n = item
        rc, out = sh("ulimit -s unlimited 2>/dev/null; timeout %d coqc -Q . PT -w -all Run/%s.v" % (timeout, name),
                     cwd=COQ, timeout=timeout + 60)
        if rc == 124:   # a loaded machine is not a violation: one more attempt with three times the budget
            rc, out = sh("ulimit -s unlimited 2>/dev/null; timeout %d coqc -Q . PT -w -all Run/%s.v" % (3 * timeout, name),
                         cwd=COQ, timeout=3 * timeout + 60)
        return item, rc, out

    n_ok, fails, logs, extras = 0, [], [], []
    with ThreadPoolExecutor(max_workers=NPROC) as ex:
        for (name, base, n), rc, out in ex.map(one, files):
            m = re.search(r'"OK (\d+) FAIL (\d+):([ \d]*)"', out)
            if rc != 0 or not m:
                logs.append("shard %s did not evaluate (rc=%s): %s" % (name, rc, out[-500:]))
                fails.extend(range(base, base + n))
                continue
            ok, nf = int(m.group(1)), int(m.group(2))
            if ok + nf != n:
                logs.append("shard %s: evaluated %d of %d cases" % (name, ok + nf, n))
                fails.extend(range(base, base + n))
                continue
            n_ok += ok
            idx = [int(x) for x in m.group(3).split()]
            fails.extend(base + i for i in idx)
            if nf > len(idx):
                logs.append("shard %s: %d failures, first %d listed" % (name, nf, len(idx)))
            if extra_eval and base == 0:
                extras.append(out)
    for f in os.listdir(rundir):
        if f.startswith(pid + "_") and not f.endswith(".v"):
            os.remove(os.path.join(rundir, f))
    return n_ok, sorted(fails), logs, extras


def run_diag(pid, preamble, case_type, cases, diag_fn, timeout=600):
    """Evaluate `<diag_fn> cases : list string` for a few failing cases; returns the strings."""
    rundir = os.path.join(COQ, "Run")
    os.makedirs(rundir, exist_ok=True)
    name = "%s_diag" % pid
    with open(os.path.join(rundir, name + ".v"), "w") as f:
        f.write("\n".join([preamble, "Open Scope Z_scope.",
                           "Definition cases : list (%s) := [" % case_type, ";\n".join(cases), "].",
                           "Eval vm_compute in (%s cases)." % diag_fn]) + "\n")
    rc, out = sh("timeout %d coqc -Q . PT -w -all Run/%s.v" % (timeout, name), cwd=COQ, timeout=timeout + 60)
    if rc == 124:   # see run_shards
        rc, out = sh("timeout %d coqc -Q . PT -w -all Run/%s.v" % (3 * timeout, name), cwd=COQ, timeout=3 * timeout + 60)
    for f in os.listdir(rundir):
        if f.startswith(name) and not f.endswith(".v"):
            os.remove(os.path.join(rundir, f))
    if rc != 0:
        return ["diagnosis failed: " + out[-300:]] * len(cases)
    m = re.search(r"=\s*\[(.*)\]\s*:\s*list string", out, flags=re.S)
    if not m:
        return ["?"] * len(cases)
    return [x.replace('""', '"') for x in re.findall(r'"((?:[^"]|"")*)"', m.group(1))]


def run_harness(script, args=(), timeout=3000, env=None, input=None):
    """Run an implementation-side harness under /venv/bin/python with /repo on the path;
    it prints one JSON document.  Returns the decoded document."""
    cmd = [PY, os.path.join(ROOT, "tools", "harness", script)] + [str(a) for a in args]
    p = subprocess.run(cmd, env=impl_env(env), stdout=subprocess.PIPE, stderr=subprocess.PIPE, text=True,
                       timeout=timeout, input=input, cwd="/")
    if p.returncode != 0:
        raise HarnessError("harness %s failed (rc=%d): %s" % (script, p.returncode, p.stderr[-1500:]))
    return json.loads(p.stdout)


class HarnessError(Exception):
    pass


# ------------------------------------------------------------------ findings, verdict, evidence

def known_findings(pid):
    path = os.path.join(ROOT, "known_findings.jsonl")
    out = []
    if os.path.exists(path):
        for line in open(path, encoding="utf-8"):
            line = line.strip()
            if not line or line.startswith("#"):
                continue
            if line.startswith("fixed:"):
                continue
            d = json.loads(line)
            if d.get("property") == pid:
                out.append(d)
    return out


class Ctx:
    """One run of one check."""

    def __init__(self, pid, tier, seed):
        self.pid, self.tier, self.seed = pid, tier, seed
        self.t0 = time.time()
        self.rng = random.Random(seed * 1000003 + int(hashlib.sha1(pid.encode()).hexdigest()[:8], 16))
        self.cov = dict(obligations=0, discharged=0, checker_cmd="", trusted_base=[], evaluations=0,
                        distinct_nontrivial=0, rule="", samples=[], exhaustive=False)
        self.assumptions = []
        self.violations = []      # (what, replay dict, found_input: bool)
        self.known_printed = []
        self.notes = []
        self.known = known_findings(pid)

    # -- findings
    def signature_known(self, sig):
        for k in self.known:
            if k.get("signature") == sig:
                return k
        return None

    def report(self, sig, what, replay, found_input=True):
        """A failing input of the property (or a broken obligation when found_input=False)."""
        k = self.signature_known(sig) if found_input else None
        if k is not None:
            if sig not in [s for s, _ in self.known_printed]:
                self.known_printed.append((sig, k.get("what", what)))
            return
        self.violations.append((sig, what, replay, found_input))

    def note(self, msg):
        self.notes.append(msg)

    # -- finish
    def finish(self):
        evdir = os.path.join(ROOT, "evidence")
        os.makedirs(evdir, exist_ok=True)
        rpdir = os.path.join(ROOT, "replay")
        os.makedirs(rpdir, exist_ok=True)
        lines = []
        for sig, what in self.known_printed:
            lines.append("KNOWN-FINDING: property=%s %s" % (self.pid, what))
        seen = set()
        nviol = 0
        for sig, what, replay, found in self.violations:
            if sig in seen:
                continue
            seen.add(sig)
            nviol += 1
            if nviol > 5:
                continue
            path = os.path.join("replay", "%s-%d.json" % (self.pid, nviol))
            doc = dict(property=self.pid, signature=sig, what=what, seed=self.seed, tier=self.tier,
                       found_failing_input=found)
            doc.update(replay)
            with open(os.path.join(ROOT, path), "w") as f:
                json.dump(doc, f, indent=1, default=str)
            tail = "" if found else " no-failing-input-found"
            lines.append("VIOLATION property=%s replay=%s%s" % (self.pid, path, tail))
            lines.append("  -> %s" % what)
        cov = dict(self.cov)
        cov["trusted_base"] = sorted(set(cov["trusted_base"]))
        cov["notes"] = self.notes[:50]
        cov["known_findings_printed"] = [w for _, w in self.known_printed]
        ev = dict(property_id=self.pid, tier=self.tier, seed=self.seed, level="proof", coverage=cov,
                  assumptions=self.assumptions, wall_s=round(time.time() - self.t0, 2), violations=len(seen))
        with open(os.path.join(evdir, self.pid + ".json"), "w") as f:
            json.dump(ev, f, indent=1, default=str)
        for l in lines:
            print(l)
        for n in self.notes[:20]:
            print("note: " + n)
        print("%s %s: obligations %d/%d, evaluations %d, violations %d, known %d, %.1fs" % (
            self.pid, self.tier, cov["discharged"], cov["obligations"], cov["evaluations"], len(seen),
            len(self.known_printed), time.time() - self.t0))
        return 1 if seen else 0


BASE_TRUST = [
    "Coq 8.16.1 kernel + vm_compute (no native_compute)",
    "tools/gen.py translator (copies table text / literals verbatim, fail-closed)",
    "tools/harness + tools/pyenc.py canonicalisation of Python observables",
    "comparison rules Base/Dec.v (round64, Qclose) as stated in DESIGN.md section 3",
]


def prove(ctx, timeout=1500):
    """Steps 1-2 of the verdict protocol.  Returns True when regeneration and all proof
    obligations of the property went through."""
    with Lock():
        ok, msg = regen(ctx.pid)
        if not ok:
            ctx.broken = ("translator", msg)
            return False
        bad = forbidden_scan()
        if bad:
            ctx.broken = ("forbidden", "; ".join(bad[:5]))
            return False
        r = check_props(ctx.pid, timeout=timeout)
    ctx.cov["obligations"] = len(r["theorems"])
    ctx.cov["checker_cmd"] = "make -j%d Props/%s.vo && coqc -Q . PT Props/%s.v (Coq 8.16.1, full .vo build)" % (
        NPROC, ctx.pid, ctx.pid)
    ctx.cov["theorems"] = r["theorems"]
    if not r["ok"]:
        ctx.broken = ("proof", r["failed"])
        return False
    ctx.cov["discharged"] = len(r["theorems"])
    ctx.cov["trusted_base"] = BASE_TRUST + ["axiom: " + a for a in r["axioms"]] + (
        ["Print Assumptions: all theorems closed under the global context"] if not r["axioms"] else [])
    ctx.broken = None
    return True
