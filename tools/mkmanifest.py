#!/usr/bin/env python3
"""Writes /verif/MANIFEST.json from the table below (kept in one place so it stays valid)."""
import json, os
ROOT = os.path.abspath(os.path.join(os.path.dirname(__file__), ".."))
ALL = ["C%02d" % i for i in range(1, 21)]

COMMON_NOTE = ("Trusted: Coq 8.16.1 kernel and vm_compute (no native_compute); tools/gen.py (regenerates coq/Gen from "
               "/repo source text on every run, fail-closed); the harness canonicalisation tools/pyenc.py; comparison "
               "rules Base/Dec.v (round64 bit-exact for table reads, 2^-40 relative for computed values). "
               "Theorems are about the Gallina model; the tie to the code is the regenerated Gen/*.v plus the "
               "correspondence run whose coverage is printed in the evidence file. ")

def load_checks():
    """Each tools/props/cxx.py that defines MANIFEST = dict(text, note, technique, ref) is a claimed check."""
    import importlib, sys
    sys.path.insert(0, os.path.join(ROOT, "tools"))
    out = {}
    ready = set(open(os.path.join(ROOT, "tools", "ready.txt")).read().split())
    for pid in ALL:
        if pid not in ready:
            continue
        if os.path.exists(os.path.join(ROOT, "tools", "props", pid.lower() + ".py")):
            mod = importlib.import_module("props." + pid.lower())
            if getattr(mod, "MANIFEST", None):
                out[pid] = dict(mod.MANIFEST)
                out[pid]["note"] = COMMON_NOTE + out[pid].get("note", "")
    return out


def main():
    CHECKS = load_checks()
    checks = []
    for pid in ALL:
        if pid not in CHECKS:
            continue
        c = CHECKS[pid]
        checks.append(dict(
            property_id=pid,
            quick_cmd="./check %s quick" % pid,
            thorough_cmd="./check %s thorough" % pid,
            evidence_file="evidence/%s.json" % pid,
            replay_cmd_template="./check %s --replay {path}" % pid,
            engine="coq-model",
            level_claimed=dict(category="proof", text=c["text"], design_ref=c["ref"]),
            level_note=c["note"],
            technique=c["technique"]))
    na = [dict(property_id=p, reason="check not built yet (work in progress; the design in DESIGN.md section 7 applies)")
          for p in ALL if p not in CHECKS]
    m = dict(
        version=1,
        setup_cmd="./setup.sh",
        hooks=dict(guard="PERIODICTABLE_VERIF",
                   enable="no source hooks: checks observe /repo through its public API with PERIODICTABLE_VERIF=1 set (unused by the code)",
                   baseline_off_cmd="cd /repo && /venv/bin/python -m pytest -ra -q -p no:cacheprovider --timeout=900 --continue-on-collection-errors",
                   source_commits=[], add_only=True),
        engines=[dict(name="coq-model", path="coq/", serves_properties=[c["property_id"] for c in checks],
                      kind_free_text="Gallina models + theorems (Coq 8.16.1), Gen/*.v regenerated from /repo by tools/gen.py, "
                                     "model run by vm_compute against implementation observables")],
        checks=checks,
        notes="See DESIGN.md.  known_findings.jsonl lists recorded findings and fixed defects.",
        not_applicable=na)
    with open(os.path.join(ROOT, "MANIFEST.json"), "w") as f:
        json.dump(m, f, indent=1)


main()
