#!/bin/sh
# usage: [NS="5 6"] [VERIF_COPY=/tmp/vseed2] run_seeds.sh C02 C06 ...   (seeds in /tmp/seed_<id>/seeded/<n>)
COPY=${VERIF_COPY:-/tmp/vseed}
export VERIF_COPY=$COPY
git -C $COPY checkout -q -- . ; for p in "$@"; do
  for n in ${NS:-1 2}; do
    d=/tmp/seed_$p/seeded/$n
    [ -f $d/patch.diff ] || continue
    /venv/bin/python /verif/tools/seedrun.py $p $d > /tmp/seedres_${p}_$n.json 2>/tmp/seedres_${p}_$n.err
    /venv/bin/python - <<PY
import json
d=json.load(open('/tmp/seedres_${p}_$n.json'))
print('$p/$n', {k:d.get(k) for k in ('demo_clean_rc','demo_patched_rc','tests_pass','check_rc','caught','caught_with_input','check_s')})
for l in d.get('check_lines',[])[:4]: print('   ', l[:230])
PY
  done
done
