"""Generators for mass.py, constants.py, density.py, core.py (used by C06 and others)."""
import ast, os
from gen import *


def gen_mass():
    src, tree = parse_module(os.path.join(PKG, "mass.py"))
    body = "\n".join(string_list_def(n, str_table(tree, n))
                     for n in ("isotope_mass", "element_mass", "isotope_abundance"))
    write("MassTables", "periodictable/mass.py", body)


def gen_constants():
    src, tree = parse_module(os.path.join(PKG, "constants.py"))
    items = []
    for n in tree.body:
        if isinstance(n, ast.Assign):
            need(len(n.targets) == 1 and isinstance(n.targets[0], ast.Name), "odd constant assignment")
            items.append((n.targets[0].id, num_text(src, n.value)))
    need(len(items) >= 9, "constants missing")
    body = "\n".join("Definition %s_text : string := %s." % (k, cstr(v)) for k, v in items)
    write("Constants", "periodictable/constants.py", body)


def gen_density():
    src, tree = parse_module(os.path.join(PKG, "density.py"))
    v = top_assign(tree, "element_densities")
    need(isinstance(v, ast.Call) and isinstance(v.func, ast.Name) and v.func.id == "dict" and not v.args,
         "element_densities is not dict(...)")
    rows = []
    for kw in v.keywords:
        need(kw.arg is not None, "**kw in element_densities")
        val = kw.value
        if isinstance(val, ast.Constant) and val.value is None:
            rows.append("(%s, None)" % cstr(kw.arg))
        elif isinstance(val, ast.Tuple):
            need(len(val.elts) == 2, "density tuple")
            rows.append("(%s, Some %s)" % (cstr(kw.arg), cstr(num_text(src, val.elts[0]))))
        else:
            rows.append("(%s, Some %s)" % (cstr(kw.arg), cstr(num_text(src, val))))
    body = "Definition element_densities : list (string * option string) := %s." % clist(rows)
    write("DensityTable", "periodictable/density.py", body)


def gen_element_base():
    src, tree = parse_module(os.path.join(PKG, "core.py"))
    v = top_assign(tree, "element_base")
    d = ast.literal_eval(v)
    need(isinstance(d, dict), "element_base not a dict")
    rows = []
    for z, row in d.items():
        need(isinstance(z, int) and len(row) == 4, "element_base row")
        name, sym, ions, unc = row
        need(all(isinstance(i, int) for i in ions + unc), "ions")
        rows.append("(%d%%Z, %s, %s, [%s]%%Z, [%s]%%Z)" % (
            z, cstr(name), cstr(sym), "; ".join(str(i) for i in ions), "; ".join(str(i) for i in unc)))
    body = ("Definition element_base : list (Z * string * string * list Z * list Z) := %s."
            % clist(rows))
    write("ElementBase", "periodictable/core.py", body)



GENERATORS = {
    "MassTables": gen_mass,
    "Constants": gen_constants,
    "DensityTable": gen_density,
    "ElementBase": gen_element_base,
}
