"""Generator for nsf.py / nsf_tables.py (C07): the neutron scattering-length table and its
imaginary companion copied verbatim, ABSORPTION_WAVELENGTH as source text, and the
energy-dependent tables as data with every number kept as its source text."""
import ast, os
from gen import *


def gen_nsf():
    src, tree = parse_module(os.path.join(PKG, "nsf.py"))
    main = str_table(tree, "nsftable")
    imag = str_table(tree, "nsftableI")
    need(len(main) > 0 and len(imag) > 0, "empty neutron table")
    wl = num_text(src, top_assign(tree, "ABSORPTION_WAVELENGTH"))

    src2, tree2 = parse_module(os.path.join(PKG, "nsf_tables.py"))
    v = top_assign(tree2, "ENERGY_DEPENDENT_TABLES")
    need(isinstance(v, ast.Dict), "ENERGY_DEPENDENT_TABLES is not a dict literal")
    seen = set()
    tables = []
    for k, val in zip(v.keys, v.values):
        need(isinstance(k, ast.Tuple) and len(k.elts) == 2, "energy table key is not a pair")
        name, iso = k.elts
        need(isinstance(name, ast.Constant) and isinstance(name.value, str), "energy table key: element name")
        need(isinstance(iso, ast.Constant) and (iso.value is None or (isinstance(iso.value, int)
                                                                       and not isinstance(iso.value, bool))),
             "energy table key: isotope number")
        key = (name.value, iso.value)
        need(key not in seen, "duplicate energy table key %r" % (key,))
        seen.add(key)
        need(isinstance(val, ast.List), "energy table %r is not a list" % (key,))
        rows = []
        for r in val.elts:
            need(isinstance(r, (ast.List, ast.Tuple)), "energy table row of %r is not a list" % (key,))
            # rows of any length are copied; the loader model decides what `zip(*values)` accepts
            rows.append("[%s]" % "; ".join(cstr(num_text(src2, e)) for e in r.elts))
        iso_t = "None" if iso.value is None else "(Some %d%%Z)" % iso.value
        tables.append("(%s, %s, %s)" % (cstr(name.value), iso_t, clist(rows)))
    need(len(tables) > 0, "no energy-dependent tables")

    body = "\n".join([
        string_list_def("nsftable", main),
        string_list_def("nsftableI", imag),
        "Definition ABSORPTION_WAVELENGTH_text : string := %s." % cstr(wl),
        "Definition energy_dependent_tables : list (string * option Z * list (list string)) := %s."
        % clist(tables),
    ])
    write("NsfTables", "periodictable/nsf.py, periodictable/nsf_tables.py", body)


GENERATORS = {
    "NsfTables": gen_nsf,
}

# properties whose checks need these generated files (a failure here only breaks those)
SERVES = ['C07', 'C03', 'C04', 'C16', 'C17']
