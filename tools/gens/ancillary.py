"""Generators for the five ancillary tables of C20: covalent_radius.py (Cordero), crystal_structure.py,
xsf.py (spectral_lines_data), magnetic_ff.py (CFML_DATA), xsf/f0_WaasKirf.dat (Cromer-Mann).

Tables are copied verbatim as `list string`; the few numeric literals that the loaders use are
emitted as source text.  Nothing is interpreted here: field splitting, continuation rules, column
order, symbol/charge splitting are all done by the Gallina models of the loaders."""
import ast, os
from gen import *


def _func(tree, name):
    found = [n for n in tree.body if isinstance(n, ast.FunctionDef) and n.name == name]
    need(len(found) == 1, "expected exactly one function %s" % name)
    return found[0]


def gen_cordero():
    path = os.path.join(PKG, "covalent_radius.py")
    src, tree = parse_module(path)
    lines = str_table(tree, "Cordero")
    init = _func(tree, "init")
    neutron, scale, defaults = [], [], []
    for n in ast.walk(init):
        if isinstance(n, ast.Assign) and len(n.targets) == 1:
            t = n.targets[0]
            # table[0].covalent_radius = <number>
            if (isinstance(t, ast.Attribute) and t.attr == "covalent_radius"
                    and isinstance(t.value, ast.Subscript) and isinstance(t.value.value, ast.Name)
                    and t.value.value.id == "table" and isinstance(t.value.slice, ast.Constant)):
                need(t.value.slice.value == 0, "covalent radius preset for an element other than 0")
                neutron.append(num_text(src, n.value))
            # dr = float(fields[3]) * <number>
            if isinstance(t, ast.Name) and t.id == "dr":
                v = n.value
                need(isinstance(v, ast.BinOp) and isinstance(v.op, ast.Mult) and isinstance(v.left, ast.Call)
                     and isinstance(v.left.func, ast.Name) and v.left.func.id == "float"
                     and ast.get_source_segment(src, v.left) == "float(fields[3])",
                     "dr is not float(fields[3]) * constant")
                scale.append(num_text(src, v.right))
            # Element.covalent_radius = None / Element.covalent_radius_uncertainty = None
            if (isinstance(t, ast.Attribute) and isinstance(t.value, ast.Name) and t.value.id == "Element"
                    and t.attr in ("covalent_radius", "covalent_radius_uncertainty")):
                need(isinstance(n.value, ast.Constant) and n.value.value is None,
                     "class default of %s is not None" % t.attr)
                defaults.append(t.attr)
    need(len(neutron) == 1, "expected one preset table[0].covalent_radius")
    need(len(scale) == 1, "expected one uncertainty scale")
    need(sorted(defaults) == ["covalent_radius", "covalent_radius_uncertainty"], "class defaults of covalent radius")
    body = "\n".join([
        string_list_def("Cordero", lines),
        "Definition cordero_neutron_radius_text : string := %s." % cstr(neutron[0]),
        "Definition cordero_unc_scale_text : string := %s." % cstr(scale[0]),
    ])
    write("Cordero", "periodictable/covalent_radius.py", body)


def gen_crystal():
    path = os.path.join(PKG, "crystal_structure.py")
    src, tree = parse_module(path)
    v = top_assign(tree, "crystal_structures")
    need(isinstance(v, ast.List), "crystal_structures is not a list literal")
    rows = []
    for e in v.elts:
        if isinstance(e, ast.Constant) and e.value is None:
            rows.append("None")
            continue
        need(isinstance(e, ast.Dict), "crystal_structures entry is neither None nor a dict literal")
        items = []
        for k, val in zip(e.keys, e.values):
            need(isinstance(k, ast.Constant) and isinstance(k.value, str), "crystal structure key")
            if isinstance(val, ast.Constant) and isinstance(val.value, str):
                items.append("(%s, inl %s)" % (cstr(k.value), cstr(val.value)))
            else:
                items.append("(%s, inr %s)" % (cstr(k.value), cstr(num_text(src, val))))
        rows.append("Some [%s]" % "; ".join(items))
    # every entry is followed, on its line, by a comment naming the element it belongs to (the list is positional):
    # the labels are carried over so that a row inserted or dropped in the middle can be told
    lines = src.split("\n")
    labels = []
    for e in v.elts:
        line = lines[e.end_lineno - 1]
        need("#" in line[e.end_col_offset:], "crystal_structures entry on line %d has no '#Symbol' comment" % e.end_lineno)
        labels.append(cstr(line[e.end_col_offset:].split("#", 1)[1].strip()))
    body = ("Definition crystal_structures : list (option (list (string * (string + string)))) := %s.\n"
            "Definition crystal_labels : list string := %s."
            % (clist(rows), clist(labels)))
    write("Crystal", "periodictable/crystal_structure.py", body)


def gen_spectral():
    src, tree = parse_module(os.path.join(PKG, "xsf.py"))
    write("Spectral", "periodictable/xsf.py", string_list_def("spectral_lines_data", str_table(tree, "spectral_lines_data")))


def gen_cfml():
    src, tree = parse_module(os.path.join(PKG, "magnetic_ff.py"))
    write("Cfml", "periodictable/magnetic_ff.py", string_list_def("CFML_DATA", str_table(tree, "CFML_DATA")))


def gen_waaskirf():
    # the path the loader opens: core.get_data_path('xsf') + 'f0_WaasKirf.dat'
    src, tree = parse_module(os.path.join(PKG, "cromermann.py"))
    upd = _func(tree, "_update_cmformulas")
    names = [n.value for n in ast.walk(upd) if isinstance(n, ast.Constant) and isinstance(n.value, str)]
    need("xsf" in names and "f0_WaasKirf.dat" in names, "cromermann no longer reads xsf/f0_WaasKirf.dat")
    with open(os.path.join(PKG, "xsf", "f0_WaasKirf.dat"), encoding="utf-8", newline="") as f:
        text = f.read()
    need("\r" not in text, "carriage return in f0_WaasKirf.dat")
    lines = text.split("\n")
    if lines and lines[-1] == "":
        lines.pop()          # iterating a file does not yield an empty line after the final newline
    need(len(lines) > 100, "f0_WaasKirf.dat is too short")
    write("WaasKirf", "periodictable/xsf/f0_WaasKirf.dat", string_list_def("f0_WaasKirf", lines))


GENERATORS = {
    "Cordero": gen_cordero,
    "Crystal": gen_crystal,
    "Spectral": gen_spectral,
    "Cfml": gen_cfml,
    "WaasKirf": gen_waaskirf,
}

# properties whose checks need these generated files (a failure here only breaks those)
SERVES = ['C20', 'C12', 'C05']
