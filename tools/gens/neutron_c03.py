"""Generator for the module-level constants of nsf.py used by the neutron calculators (C03/C04/C16/C17):
ENERGY_FACTOR, VELOCITY_FACTOR and _4PI_100 as *arithmetic expressions in prefix notation* (a list of
tokens: "*", "/", "**", names of constants, numeric literals as source text, "pi").  Nothing is
evaluated here; the Gallina side (Model/NsfCalc.v) reads the token list, looks the names up in
Gen/Constants.v and fails closed on anything it does not know."""
import ast, os
from gen import *

OPS = {ast.Mult: "*", ast.Div: "/", ast.Add: "+", ast.Sub: "-"}


def prefix(src, node, out):
    if isinstance(node, ast.BinOp) and type(node.op) in OPS:
        out.append(OPS[type(node.op)])
        prefix(src, node.left, out)
        prefix(src, node.right, out)
    elif isinstance(node, ast.BinOp) and isinstance(node.op, ast.Pow):
        need(isinstance(node.right, ast.Constant) and isinstance(node.right.value, int)
             and not isinstance(node.right.value, bool) and node.right.value >= 0, "power with a non-literal exponent")
        out.append("**")
        prefix(src, node.left, out)
        out.append(str(node.right.value))
    elif isinstance(node, ast.Name):
        out.append(node.id)
    elif isinstance(node, ast.Attribute) and isinstance(node.value, ast.Name) and node.value.id in ("np", "numpy") \
            and node.attr == "pi":
        out.append("pi")
    elif isinstance(node, ast.Constant):
        out.append(num_text(src, node))
    else:
        raise TranslationError("unrecognised arithmetic in a neutron constant: %s" % ast.dump(node))
    return out


def gen_neutron_consts():
    src, tree = parse_module(os.path.join(PKG, "nsf.py"))
    # names that must come from .constants (so that Gen/Constants.v is what they denote)
    imported = set()
    for n in tree.body:
        if isinstance(n, ast.ImportFrom) and n.module == "constants" and n.level == 1:
            for a in n.names:
                need(a.asname is None, "constant imported under another name")
                imported.add(a.name)
    defs = []
    for name in ("ENERGY_FACTOR", "VELOCITY_FACTOR", "_4PI_100"):
        toks = prefix(src, top_assign(tree, name), [])
        for t in toks:
            if t[0].isalpha() and t != "pi":
                need(t in imported, "%s uses %s which is not imported from .constants" % (name, t))
        defs.append("Definition %s_prefix : list string := [%s]." % (name.strip("_").replace("4PI", "FOURPI"), "; ".join(cstr(t) for t in toks)))
    write("NeutronConsts", "periodictable/nsf.py", "\n".join(defs))


GENERATORS = {
    "NeutronConsts": gen_neutron_consts,
}

# properties whose checks need these generated files (a failure here only breaks those)
SERVES = ["C03", "C04", "C16", "C17"]
