"""Translator plug-in for C09/C10: /repo source (as ast, never imported) -> coq/Gen/LoaderScripts.v.

What is emitted (types in Model/AttrScript.v):

* `getter_script`, `setter_script`, `clear_order`, `install_order` : what core.delayed_load's getfn / setfn /
  clearprops / installation loops do, statement by statement;
* `delegating` : the classes whose __getattr__ is `return getattr(self.element, attr)`;
* `static_props` : properties written in the class bodies of core.py (Ion.mass, Element.isotopes);
* `registrations` : every `core.delayed_load([...], loader, element=, isotope=, ion=)` of __init__.py, in order,
  with the `module.function` its loader calls on `elements`;
* `eager_inits` : the `module.init(elements)` calls executed by `import periodictable`;
* `init_scripts` : for mass/density/nsf/xsf/covalent_radius/crystal_structure/magnetic_ff/activation `init`,
  `xsf.init_spectral_lines` and the helpers they call with the table: the ORDERED list of attribute effects
  (guard, append, require, class-level set, instance set, hasattr/getattr probes, reads of lazily loaded
  attributes, deletes), loops flattened in statement order;
* `import_calls` : for every submodule, the calculators it calls at import time (module level).

Only the statement shapes these functions use today are recognised; anything else that could touch an
attribute of a table, an atom or one of the three classes raises TranslationError (fail closed).
Reordering two statements of a loader changes the emitted script."""
import ast, os
from gen import *

CLASSES = ("Element", "Isotope", "Ion")
INIT_FUNCS = [("mass", "init"), ("density", "init"), ("nsf", "init"), ("xsf", "init"),
              ("xsf", "init_spectral_lines"), ("covalent_radius", "init"), ("crystal_structure", "init"),
              ("magnetic_ff", "init"), ("activation", "init")]
CALCULATORS = ("neutron_sld", "neutron_scattering", "xray_sld", "neutron_sld_from_atoms", "D2O_match",
               "neutron_composite_sld", "xray_wavelength", "index_of_refraction", "mirror_reflectivity")
# callees that cannot reach a table, atom or class (they get strings / numbers / arrays only; enforced below:
# no argument may be a table, atom or class expression)
PURE_BUILTINS = {"float", "int", "str", "len", "zip", "dict", "tuple", "list", "sorted", "enumerate", "open",
                 "isinstance", "eval", "sqrt", "asarray", "range", "abs", "min", "max", "any", "all", "print"}


def fdef(tree, name):
    f = [n for n in tree.body if isinstance(n, ast.FunctionDef) and n.name == name]
    need(len(f) == 1, "expected exactly one def %s" % name)
    return f[0]


def strip_doc(body):
    if body and isinstance(body[0], ast.Expr) and isinstance(body[0].value, ast.Constant) \
            and isinstance(body[0].value.value, str):
        return body[1:]
    return body


def is_call(node, fname, nargs=None):
    ok = isinstance(node, ast.Call) and isinstance(node.func, ast.Name) and node.func.id == fname
    if ok and nargs is not None:
        ok = len(node.args) == nargs and not node.keywords
    return ok


def is_name(node, ident):
    return isinstance(node, ast.Name) and node.id == ident


# ------------------------------------------------------------------ core.delayed_load

def gen_core(out):
    src, tree = parse_module(os.path.join(PKG, "core.py"))
    f = fdef(tree, "delayed_load")
    a = f.args
    need([x.arg for x in a.args] == ["all_props", "loader", "element", "isotope", "ion"] and not a.vararg
         and not a.kwarg and not a.kwonlyargs, "delayed_load signature changed")
    need([d.value for d in a.defaults] == [True, False, False], "delayed_load defaults changed")
    body = strip_doc(f.body)
    need(len(body) == 6, "delayed_load body: expected clearprops, getter, setter and three install blocks")
    clear, getter, setter = body[0], body[1], body[2]
    need(all(isinstance(x, ast.FunctionDef) for x in (clear, getter, setter))
         and (clear.name, getter.name, setter.name) == ("clearprops", "getter", "setter"),
         "delayed_load: clearprops/getter/setter not found in this order")
    FLAG = {"element": "Element", "isotope": "Isotope", "ion": "Ion"}

    def flag_blocks(stmts, what, inner):
        order = []
        for st in stmts:
            need(isinstance(st, ast.If) and isinstance(st.test, ast.Name) and st.test.id in FLAG and not st.orelse
                 and len(st.body) == 1, "%s: not an `if <flag>:` block" % what)
            loop = st.body[0]
            need(isinstance(loop, ast.For) and is_name(loop.target, "p") and is_name(loop.iter, "all_props")
                 and not loop.orelse, "%s: not `for p in all_props`" % what)
            cls = inner(loop.body)
            need(cls == FLAG[st.test.id], "%s: flag %s acts on class %s" % (what, st.test.id, cls))
            order.append(cls)
        need(sorted(order) == sorted(CLASSES), "%s: does not cover Element, Isotope, Ion once each" % what)
        return order

    def clear_inner(b):
        need(len(b) == 1 and isinstance(b[0], ast.Expr) and is_call(b[0].value, "delattr", 2)
             and isinstance(b[0].value.args[0], ast.Name) and is_name(b[0].value.args[1], "p"),
             "clearprops: not delattr(Class, p)")
        return b[0].value.args[0].id

    clear_order = flag_blocks(strip_doc(clear.body), "clearprops", clear_inner)

    def inner_fn(outer, name, params):
        b = strip_doc(outer.body)
        need(len(b) == 2 and isinstance(b[0], ast.FunctionDef) and b[0].name == name
             and [x.arg for x in b[0].args.args] == params and isinstance(b[1], ast.Return)
             and is_name(b[1].value, name) and [x.arg for x in outer.args.args] == ["propname"],
             "%s: shape changed" % outer.name)
        return strip_doc(b[0].body)

    gsteps = []
    for st in inner_fn(getter, "getfn", ["el"]):
        if isinstance(st, ast.Expr) and is_call(st.value, "clearprops", 0):
            gsteps.append("GClear")
        elif isinstance(st, ast.Expr) and is_call(st.value, "loader", 0):
            gsteps.append("GLoad")
        elif isinstance(st, ast.Return) and is_call(st.value, "getattr", 2) and is_name(st.value.args[0], "el") \
                and is_name(st.value.args[1], "propname"):
            gsteps.append("GGetattr")
        else:
            raise TranslationError("getfn: unrecognised statement: " + ast.dump(st)[:120])
    ssteps = []
    for st in inner_fn(setter, "setfn", ["el", "value"]):
        if isinstance(st, ast.Expr) and is_call(st.value, "clearprops", 0):
            ssteps.append("SClear")
        elif isinstance(st, ast.Expr) and is_call(st.value, "loader", 0):
            ssteps.append("SLoad")
        elif isinstance(st, ast.Expr) and is_call(st.value, "setattr", 3) and is_name(st.value.args[0], "el") \
                and is_name(st.value.args[1], "propname") and is_name(st.value.args[2], "value"):
            ssteps.append("SSetattr")
        else:
            raise TranslationError("setfn: unrecognised statement: " + ast.dump(st)[:120])

    def install_inner(b):
        need(len(b) == 2 and isinstance(b[0], ast.Assign) and is_name(b[0].targets[0], "prop")
             and isinstance(b[0].value, ast.Call) and is_name(b[0].value.func, "property")
             and len(b[0].value.args) == 2 and is_call(b[0].value.args[0], "getter", 1)
             and is_call(b[0].value.args[1], "setter", 1)
             and is_name(b[0].value.args[0].args[0], "p") and is_name(b[0].value.args[1].args[0], "p"),
             "install: not property(getter(p), setter(p), ...)")
        need(isinstance(b[1], ast.Expr) and is_call(b[1].value, "setattr", 3) and is_name(b[1].value.args[1], "p")
             and is_name(b[1].value.args[2], "prop") and isinstance(b[1].value.args[0], ast.Name),
             "install: not setattr(Class, p, prop)")
        return b[1].value.args[0].id

    install_order = flag_blocks(body[3:], "install", install_inner)

    # classes: __getattr__ delegation, properties written in class bodies, no __setattr__/__getattribute__
    delegating, static = [], []
    for c in tree.body:
        if isinstance(c, ast.ClassDef) and c.name in CLASSES:
            for m in c.body:
                if isinstance(m, ast.FunctionDef):
                    need(m.name not in ("__setattr__", "__getattribute__", "__delattr__", "__slots__"),
                         "%s defines %s" % (c.name, m.name))
                    if m.name == "__getattr__":
                        b = strip_doc(m.body)
                        need(len(b) == 1 and isinstance(b[0], ast.Return) and is_call(b[0].value, "getattr", 2)
                             and isinstance(b[0].value.args[0], ast.Attribute)
                             and is_name(b[0].value.args[0].value, "self") and b[0].value.args[0].attr == "element"
                             and is_name(b[0].value.args[1], m.args.args[1].arg),
                             "%s.__getattr__ is not `return getattr(self.element, attr)`" % c.name)
                        delegating.append(c.name)
                    if any(is_name(d, "property") for d in m.decorator_list):
                        static.append((c.name, m.name))
    need(sorted(delegating) == ["Ion", "Isotope"], "delegation: expected Isotope and Ion to delegate, found %s" % delegating)
    out.append("Definition getter_script : list gstep := [%s]." % "; ".join(gsteps))
    out.append("Definition setter_script : list sstep := [%s]." % "; ".join(ssteps))
    out.append("Definition clear_order : list cls := [%s]." % "; ".join(clear_order))
    out.append("Definition install_order : list cls := [%s]." % "; ".join(install_order))
    out.append("Definition delegating : list cls := [%s]." % "; ".join(sorted(delegating)))
    out.append("Definition static_props : list (cls * string) := [%s]." %
               "; ".join("(%s, %s)" % (c, cstr(n)) for c, n in static))


# ------------------------------------------------------------------ __init__.py registrations

def gen_registrations(out):
    src, tree = parse_module(os.path.join(PKG, "__init__.py"))
    loaders, regs, eager = {}, [], []
    pub = None
    for st in tree.body:
        if isinstance(st, ast.Assign) and len(st.targets) == 1 and is_name(st.targets[0], "elements"):
            need(isinstance(st.value, ast.Attribute) and is_name(st.value.value, "core")
                 and st.value.attr == "PUBLIC_TABLE", "elements is not core.PUBLIC_TABLE")
            need(pub is None, "elements assigned twice")
            pub = "elements"
        if isinstance(st, ast.FunctionDef) and st.name.startswith("_load_"):
            b = strip_doc(st.body)
            need(len(b) == 2 and isinstance(b[0], ast.ImportFrom) and b[0].level == 1 and b[0].module is None
                 and len(b[0].names) == 1 and b[0].names[0].asname is None, "%s: import shape" % st.name)
            mod = b[0].names[0].name
            call = b[1].value if isinstance(b[1], ast.Expr) else None
            need(isinstance(call, ast.Call) and isinstance(call.func, ast.Attribute) and is_name(call.func.value, mod)
                 and len(call.args) == 1 and is_name(call.args[0], "elements") and not call.keywords,
                 "%s: does not call %s.<init>(elements)" % (st.name, mod))
            loaders[st.name] = "%s.%s" % (mod, call.func.attr)
        if isinstance(st, ast.Expr) and isinstance(st.value, ast.Call) and isinstance(st.value.func, ast.Attribute):
            c = st.value
            if is_name(c.func.value, "core") and c.func.attr == "delayed_load":
                need(len(c.args) == 2 and isinstance(c.args[0], ast.List) and isinstance(c.args[1], ast.Name),
                     "delayed_load call shape")
                names = [e.value for e in c.args[0].elts if isinstance(e, ast.Constant) and isinstance(e.value, str)]
                need(len(names) == len(c.args[0].elts) and names, "delayed_load names are not string literals")
                fl = dict(element=True, isotope=False, ion=False)
                for kw in c.keywords:
                    need(kw.arg in fl and isinstance(kw.value, ast.Constant) and isinstance(kw.value.value, bool),
                         "delayed_load keyword")
                    fl[kw.arg] = kw.value.value
                need(c.args[1].id in loaders, "loader %s is not defined before its registration" % c.args[1].id)
                regs.append((names, c.args[1].id, loaders[c.args[1].id], fl))
            elif isinstance(c.func.value, ast.Name) and c.func.attr.startswith("init") and len(c.args) == 1 \
                    and is_name(c.args[0], "elements"):
                need(pub is not None, "init(elements) before elements is bound")
                eager.append("%s.%s" % (c.func.value.id, c.func.attr))
    need(pub is not None, "elements = core.PUBLIC_TABLE not found")
    seen = set()
    for names, _, _, _ in regs:
        for n in names:
            need(n not in seen, "attribute %s registered twice" % n)
            seen.add(n)
    b = lambda x: "true" if x else "false"
    out.append("Definition registrations : list registration := %s." % clist([
        "mkReg [%s] %s %s %s %s %s" % ("; ".join(cstr(n) for n in names), cstr(ld), cstr(key),
                                       b(fl["element"]), b(fl["isotope"]), b(fl["ion"]))
        for names, ld, key, fl in regs]))
    out.append("Definition eager_inits : list string := [%s]." % "; ".join(cstr(e) for e in eager))
    return seen, [key for _, _, key, _ in regs], eager


# ------------------------------------------------------------------ init functions -> effect scripts

class Script:
    """Walks one function body in statement order."""

    def __init__(self, mod, tree, src, fname, lazy, pending_calls):
        self.mod, self.tree, self.src, self.fname, self.lazy = mod, tree, src, fname, lazy
        self.pending_calls = pending_calls
        self.effects = []
        self.localfns = {}
        self.env = {}           # local name -> kind
        self.where = "%s.%s" % (mod, fname)
        self.classes = set()
        for n in tree.body:     # how the three classes are visible in this module
            if isinstance(n, ast.ImportFrom) and n.level == 1 and n.module == "core":
                for a in n.names:
                    if a.name in CLASSES:
                        need(a.asname is None, "class imported under another name")
                        self.classes.add(a.name)
        self.constants = set()   # numbers imported from .constants
        for n in tree.body:
            if isinstance(n, ast.ImportFrom) and n.level == 1 and n.module == "constants":
                self.constants.update(a.asname or a.name for a in n.names)
        self.module_funcs = {n.name for n in tree.body if isinstance(n, ast.FunctionDef)}
        self.module_classes = {n.name for n in tree.body if isinstance(n, ast.ClassDef)}

    def fail(self, node, why):
        raise TranslationError("%s line %s: %s: %s" % (self.where, getattr(node, "lineno", "?"), why,
                                                       (ast.get_source_segment(self.src, node) or "")[:100]))

    def emit(self, e):
        if "TgRowsEl+TgRowsIso" in e:       # `el if cond else el[iso]`: both kinds of atom
            self.emit(e.replace("TgRowsEl+TgRowsIso", "TgRowsEl"))
            self.emit(e.replace("TgRowsEl+TgRowsIso", "TgRowsIso"))
            return
        if not self.effects or self.effects[-1] != e:
            self.effects.append(e)

    # ---- classification of expressions denoting a table, an atom or a class
    def kind(self, e):
        """'table' | 'el0' | 'el' | 'iso' | 'alliso' | 'class:<C>' | None"""
        if isinstance(e, ast.Name):
            if e.id in self.classes:
                return "class:" + e.id
            return self.env.get(e.id) if self.env.get(e.id) in ("table", "el0", "el", "iso", "alliso", "allel", "eliso") else None
        if isinstance(e, ast.Subscript):
            k = self.kind(e.value)
            if k == "table":
                if isinstance(e.slice, ast.Constant) and e.slice.value == 0:
                    return "el0"
                return "el"
            if k in ("el", "el0"):
                return "iso"
            if k == "allel":
                return "alliso" if isinstance(e.slice, ast.Name) and self.env.get(e.slice.id) == "isonum" else "iso"
            return None
        if isinstance(e, ast.Attribute):
            k = self.kind(e.value)
            if k == "table" and e.attr[:1].isupper():       # table.Xe, table.Lu
                return "el"
            return None
        if isinstance(e, ast.IfExp):
            ks = {self.kind(e.body), self.kind(e.orelse)}
            if ks == {"el", "iso"}:
                return "eliso"
            if len(ks) == 1:
                return ks.pop()
            if None in ks and len(ks) == 2:
                raise TranslationError("%s: conditional expression mixes an atom with something else" % self.where)
            return None
        if isinstance(e, ast.Call):
            f = e.func
            if isinstance(f, ast.Attribute) and self.kind(f.value) == "table" and f.attr == "symbol":
                return "el"
            if isinstance(f, ast.Attribute) and self.kind(f.value) in ("el", "el0") and f.attr == "add_isotope":
                return "iso"
            if is_call(e, "getattr", 2) and self.kind(e.args[0]) == "table":
                return "el"
        return None

    TG = {"el0": "TgTable0", "el": "TgRowsEl", "allel": "TgRowsEl", "iso": "TgRowsIso", "alliso": "TgAllIso",
          "eliso": "TgRowsEl+TgRowsIso"}

    def target(self, e, node):
        k = self.kind(e)
        if k not in self.TG:
            self.fail(node, "attribute effect on something that is not an atom of the table")
        return self.TG[k]

    # ---- provenance of an assigned value
    def container_kind(self, name):
        """elements of a module-level literal container: 'imm' or 'shared' (mutable, one object for all tables)"""
        v = top_assign(self.tree, name)
        elts = None
        if isinstance(v, (ast.List, ast.Tuple)):
            elts = v.elts
        elif isinstance(v, ast.Dict):
            elts = v.values
        elif isinstance(v, ast.Call) and is_name(v.func, "dict") and not v.args:
            elts = [k.value for k in v.keywords]
        need(elts is not None, "%s: module-level container %s is not a literal" % (self.where, name))

        def imm(x):
            if isinstance(x, ast.Constant):
                return True
            if isinstance(x, ast.UnaryOp):
                return imm(x.operand)
            if isinstance(x, ast.Tuple):
                return all(imm(y) for y in x.elts)
            if isinstance(x, (ast.Dict, ast.List, ast.Set)):
                return False
            raise TranslationError("%s: element of %s is neither a literal nor a display" % (self.where, name))
        return "imm" if all(imm(x) for x in elts) else "shared"

    def vkind(self, v, node):
        if isinstance(v, ast.Constant):
            return "VKImm"
        if isinstance(v, ast.Tuple):
            ks = [self.vkind(x, node) for x in v.elts]
            return "VKShared" if "VKShared" in ks else ("VKAlloc" if "VKAlloc" in ks else "VKImm")
        if isinstance(v, (ast.Dict, ast.List, ast.Set)):
            return "VKAlloc"
        if isinstance(v, (ast.BinOp, ast.UnaryOp, ast.Compare, ast.BoolOp, ast.JoinedStr)):
            return "VKImm"
        if isinstance(v, ast.IfExp):
            none = lambda x: isinstance(x, ast.Constant) and x.value is None
            if none(v.orelse) and not none(v.body):      # `copy if x is not None else None`
                return self.vkind(v.body, node)
            if none(v.body) and not none(v.orelse):
                return self.vkind(v.orelse, node)
            ks = {self.vkind(v.body, node), self.vkind(v.orelse, node)}
            need(len(ks) == 1, "%s: conditional value of two kinds" % self.where)
            return ks.pop()
        if isinstance(v, ast.Call) and isinstance(v.func, ast.Name):
            if v.func.id in ("float", "int", "str", "fix_number", "sqrt", "parse_uncertainty"):
                return "VKImm"
            if v.func.id in self.module_classes or v.func.id in ("dict", "list"):
                return "VKAlloc"
        if isinstance(v, ast.Subscript):
            k = self.vkind(v.value, node)
            if k in ("VKImm",):
                return "VKImm"
        if isinstance(v, ast.Name):
            k = self.env.get(v.id)
            if k == "alloc":
                return "VKAlloc"
            if k == "shared":
                return "VKShared"
            if k in ("imm", "pure"):
                return "VKImm"
            if k is None and v.id in self.constants:
                return "VKImm"
        self.fail(node, "cannot tell whether the assigned value is fresh, shared or immutable")

    # ---- reads of lazily loaded attributes inside an expression, in source order
    def scan(self, e, skip=()):
        """emit ERead for every `<atom>.<lazy>` load in e; refuse calls that could hide attribute effects"""
        if e is None:
            return
        nodes = [n for n in ast.walk(e) if n not in skip]
        nodes.sort(key=lambda n: (getattr(n, "lineno", 0), getattr(n, "col_offset", 0)))
        for n in nodes:
            if isinstance(n, ast.Attribute) and isinstance(n.ctx, ast.Load) and n.attr in self.lazy:
                k = self.kind(n.value)
                if k in self.TG:
                    self.emit("ERead %s %s" % (self.TG[k], cstr(n.attr)))
                elif k is not None and k.startswith("class:"):
                    self.fail(n, "read of a class-level lazy attribute")
                elif self.root_kind(n.value) in ("alloc", "pure", "imm", None) and not self.mentions_atom(n.value):
                    pass            # e.g. nsf.neutron on a local record
                else:
                    self.fail(n, "read of lazy attribute %s on an unclassified expression" % n.attr)
            if isinstance(n, ast.Call):
                self.check_call(n)

    def root_kind(self, e):
        while isinstance(e, (ast.Attribute, ast.Subscript)):
            e = e.value
        if isinstance(e, ast.Name):
            return self.env.get(e.id)
        return None

    def mentions_atom(self, e):
        return any(self.kind(n) is not None for n in ast.walk(e) if isinstance(n, (ast.Name, ast.Subscript, ast.Attribute, ast.Call)))

    def check_call(self, c):
        f = c.func
        fname = f.id if isinstance(f, ast.Name) else None
        if fname == "getattr" and len(c.args) == 2 and self.kind(c.args[0]) == "table":
            return          # getattr(table, symbol): the element of that symbol
        if fname in ("hasattr", "getattr", "setattr", "delattr"):
            if c not in self.allowed_probe:
                self.fail(c, "%s in an unrecognised position" % fname)
            return
        args = list(c.args) + [k.value for k in c.keywords]
        hot = [a for a in args if self.kind(a) is not None]
        if not hot:
            return
        if fname in ("isinstance",):
            return
        if fname in self.module_classes and all(self.kind(a) in ("el", "el0", "iso") for a in hot):
            return          # Xray(el): constructor keeps a reference, no attribute effect at init time
        if fname in self.module_funcs and len(c.args) == 1 and self.kind(c.args[0]) == "table" and not c.keywords:
            return          # helper(table): handled as ECall by the statement walker
        if fname in ("property",):
            return
        if isinstance(f, ast.Attribute) and self.kind(f.value) in ("table",) and f.attr == "symbol":
            return
        if isinstance(f, ast.Attribute) and self.kind(f.value) in ("el", "el0") and f.attr == "add_isotope":
            return
        self.fail(c, "call receives a table/atom/class and is not a recognised shape")

    # ---- statements
    allowed_probe = ()

    def run(self, fn):
        a = fn.args
        params = [x.arg for x in a.args]
        need(params[:1] == ["table"] and not a.vararg and not a.kwarg, "%s: first parameter is not `table`" % self.where)
        if params[1:] == ["reload"]:
            need(len(a.defaults) == 1 and isinstance(a.defaults[0], ast.Constant) and a.defaults[0].value is False,
                 "%s: reload default is not False" % self.where)
        else:
            need(params[1:] == [], "%s: unexpected parameters" % self.where)
        self.env["table"] = "table"
        self.block(strip_doc(fn.body))
        return self.effects

    def block(self, stmts):
        for st in stmts:
            self.stmt(st)

    def stmt(self, st):
        self.allowed_probe = ()
        if isinstance(st, (ast.Pass, ast.Continue, ast.Import, ast.ImportFrom)):
            return
        if isinstance(st, ast.Return):
            need(st.value is None, "%s: return with a value" % self.where)
            return
        if isinstance(st, ast.FunctionDef):
            self.env[st.name] = "localfn"        # defined here, walked where it is called
            self.localfns[st.name] = st
            return
        if isinstance(st, ast.Expr) and isinstance(st.value, ast.Constant):
            return
        if isinstance(st, ast.If):
            return self.if_stmt(st)
        if isinstance(st, ast.Assert):
            return self.assert_stmt(st)
        if isinstance(st, ast.For):
            return self.for_stmt(st)
        if isinstance(st, ast.Assign):
            return self.assign(st)
        if isinstance(st, ast.AugAssign):
            need(isinstance(st.target, ast.Name), "%s: augmented assignment to an attribute" % self.where)
            self.scan(st.value)
            return
        if isinstance(st, ast.Expr) and isinstance(st.value, ast.Call):
            return self.call_stmt(st.value)
        if isinstance(st, ast.Delete):
            self.fail(st, "del outside the recognised `if hasattr(x, a): del x.a` shape")
        self.fail(st, "statement kind %s not recognised" % type(st).__name__)

    def props_test(self, t):
        """'KEY' in table.properties -> KEY"""
        if isinstance(t, ast.Compare) and len(t.ops) == 1 and isinstance(t.ops[0], ast.In) \
                and isinstance(t.left, ast.Constant) and isinstance(t.left.value, str) \
                and isinstance(t.comparators[0], ast.Attribute) and t.comparators[0].attr == "properties" \
                and self.kind(t.comparators[0].value) == "table":
            return t.left.value
        return None

    def if_stmt(self, st):
        t = st.test
        # guard: if 'KEY' in table.properties and not reload: return
        if isinstance(t, ast.BoolOp) and isinstance(t.op, ast.And) and len(t.values) == 2 and self.props_test(t.values[0]) \
                and isinstance(t.values[1], ast.UnaryOp) and isinstance(t.values[1].op, ast.Not) \
                and is_name(t.values[1].operand, "reload"):
            need(len(st.body) == 1 and isinstance(st.body[0], ast.Return) and st.body[0].value is None and not st.orelse,
                 "%s: guard does not simply return" % self.where)
            self.emit("EGuard %s" % cstr(self.props_test(t.values[0])))
            return
        # if table is not default_table(): getattr(default_table()[0], 'lazy', None)
        if isinstance(t, ast.Compare) and len(t.ops) == 1 and isinstance(t.ops[0], ast.IsNot) \
                and self.kind(t.left) == "table" and is_call(t.comparators[0], "default_table", 0):
            need(len(st.body) == 1 and not st.orelse and isinstance(st.body[0], ast.Expr)
                 and is_call(st.body[0].value, "getattr", 3), "%s: `if table is not default_table()` body" % self.where)
            g = st.body[0].value
            need(isinstance(g.args[0], ast.Subscript) and is_call(g.args[0].value, "default_table", 0)
                 and isinstance(g.args[0].slice, ast.Constant) and g.args[0].slice.value == 0
                 and isinstance(g.args[1], ast.Constant) and g.args[1].value in self.lazy
                 and isinstance(g.args[2], ast.Constant) and g.args[2].value is None,
                 "%s: not getattr(default_table()[0], <lazy name>, None)" % self.where)
            need(any(isinstance(n, ast.ImportFrom) and n.level == 1 and n.module == "core"
                     and any(a.name == "default_table" and a.asname is None for a in n.names) for n in self.tree.body),
                 "%s: default_table is not core.default_table" % self.where)
            self.emit("ETouchPublic %s" % cstr(g.args[1].value))
            return
        # if not hasattr(x, 'a'): x.a = v
        if isinstance(t, ast.UnaryOp) and isinstance(t.op, ast.Not) and is_call(t.operand, "hasattr", 2) \
                and isinstance(t.operand.args[1], ast.Constant) and self.kind(t.operand.args[0]) in self.TG:
            x, attr = t.operand.args[0], t.operand.args[1].value
            need(len(st.body) == 1 and not st.orelse and isinstance(st.body[0], ast.Assign)
                 and len(st.body[0].targets) == 1 and isinstance(st.body[0].targets[0], ast.Attribute)
                 and st.body[0].targets[0].attr == attr
                 and ast.dump(st.body[0].targets[0].value) == ast.dump(x),
                 "%s: `if not hasattr(x, a)` does not guard `x.a = v`" % self.where)
            self.emit("EProbeSet %s %s %s" % (self.target(x, st), cstr(attr), self.vkind(st.body[0].value, st)))
            return
        # if hasattr(x, 'a'): del x.a
        if is_call(t, "hasattr", 2) and isinstance(t.args[1], ast.Constant) and self.kind(t.args[0]) in self.TG:
            x, attr = t.args[0], t.args[1].value
            need(len(st.body) == 1 and not st.orelse and isinstance(st.body[0], ast.Delete)
                 and len(st.body[0].targets) == 1 and isinstance(st.body[0].targets[0], ast.Attribute)
                 and st.body[0].targets[0].attr == attr
                 and ast.dump(st.body[0].targets[0].value) == ast.dump(x),
                 "%s: `if hasattr(x, a)` does not guard `del x.a`" % self.where)
            self.emit("EProbeDel %s %s" % (self.target(x, st), cstr(attr)))
            return
        self.scan(t)
        self.block(st.body)
        self.block(st.orelse)

    def assert_stmt(self, st):
        t = st.test
        parts = t.values if isinstance(t, ast.BoolOp) and isinstance(t.op, ast.And) else [t]
        keys = [self.props_test(p) for p in parts]
        if all(keys):
            for k in keys:
                self.emit("ERequire %s" % cstr(k))
            return
        need(not any(keys), "%s: assert mixes table.properties with other tests" % self.where)
        self.scan(t)

    def for_stmt(self, st):
        need(not st.orelse, "%s: for/else" % self.where)
        it, tgt = st.iter, st.target
        if self.kind(it) == "table" and isinstance(tgt, ast.Name):            # for el in table
            self.env[tgt.id] = "allel"
        elif isinstance(it, ast.Attribute) and it.attr == "isotopes" and self.kind(it.value) in ("allel", "el") \
                and isinstance(tgt, ast.Name):                                 # for iso in el.isotopes
            self.env[tgt.id] = "isonum"
        elif is_call(it, "enumerate", 1) and isinstance(it.args[0], ast.Name) and isinstance(tgt, ast.Tuple) \
                and len(tgt.elts) == 2 and all(isinstance(x, ast.Name) for x in tgt.elts):
            self.env[tgt.elts[0].id] = "pure"
            self.env[tgt.elts[1].id] = self.container_kind(it.args[0].id)
        elif isinstance(it, ast.Call) and isinstance(it.func, ast.Attribute) and it.func.attr == "items" \
                and isinstance(it.func.value, ast.Name) and self.kind(it.func.value) is None:
            nm = it.func.value.id
            ck = self.env.get(nm) or (self.container_kind(nm) if any(
                isinstance(n, ast.Assign) and is_name(n.targets[0], nm) for n in self.tree.body) else "pure")
            for x in ast.walk(tgt):
                if isinstance(x, ast.Name):
                    self.env[x.id] = "pure" if ck in ("pure", "imm") else ck
        else:
            # rows of text: X.split(...), open(path), data.split('\n')
            self.scan(it)
            need(not self.mentions_atom(it), "%s: loop over something reached from the table" % self.where)
            for x in ast.walk(tgt):
                if isinstance(x, ast.Name):
                    self.env[x.id] = "pure"
        self.block(st.body)

    def bind(self, name, value, node):
        k = self.kind(value)
        if k in ("table", "el0", "el", "iso", "alliso", "allel", "eliso"):
            self.env[name] = k
            return
        if k is not None:
            self.fail(node, "class bound to a local name")
        if isinstance(value, ast.Call) and isinstance(value.func, ast.Name) and (
                value.func.id in self.module_classes) or isinstance(value, (ast.Dict, ast.List, ast.Set)):
            self.env[name] = "alloc"
        elif isinstance(value, ast.Constant) or (isinstance(value, ast.Call) and isinstance(value.func, ast.Name)
                                                 and value.func.id in ("float", "int", "str")):
            self.env[name] = "imm"
        else:
            self.env[name] = "pure"

    def assign(self, st):
        need(len(st.targets) == 1, "%s: chained assignment" % self.where)
        tgt, val = st.targets[0], st.value
        # x = getattr(atom, 'lazy', default) ... later atom.lazy = x
        if isinstance(tgt, ast.Name) and is_call(val, "getattr", 3) and isinstance(val.args[1], ast.Constant) \
                and self.kind(val.args[0]) in self.TG and isinstance(val.args[2], (ast.List, ast.Dict)):
            self.env[tgt.id] = "getdefault:%s:%s" % (self.target(val.args[0], st), val.args[1].value)
            return
        self.allowed_probe = ()
        self.scan(val)
        targets = tgt.elts if isinstance(tgt, (ast.Tuple, ast.List)) else [tgt]
        vals = val.elts if isinstance(tgt, (ast.Tuple, ast.List)) and isinstance(val, (ast.Tuple, ast.List)) \
            and len(val.elts) == len(targets) else None
        for i, t in enumerate(targets):
            v = vals[i] if vals else (val if len(targets) == 1 else None)
            if isinstance(t, ast.Name):
                if v is not None:
                    self.bind(t.id, v, st)
                else:
                    self.env[t.id] = "pure"
            elif isinstance(t, ast.Attribute):
                self.attr_store(t, v, st)
            elif isinstance(t, ast.Subscript):
                need(self.kind(t.value) is None, "%s: item assignment on an atom" % self.where)
                self.scan(t.value)
                if isinstance(t.value, ast.Attribute) and t.value.attr in self.lazy and self.kind(t.value.value) in self.TG:
                    need(v is not None, "%s: item assignment from an unpacked value" % self.where)
                    self.emit("ESub %s %s %s" % (self.TG[self.kind(t.value.value)], cstr(t.value.attr), self.vkind(v, st)))
            else:
                self.fail(st, "assignment target not recognised")

    def attr_store(self, t, v, st):
        base = t.value
        k = self.kind(base)
        if k is not None and k.startswith("class:"):
            cls = k[6:]
            if isinstance(v, ast.Call) and is_name(v.func, "property"):
                ck = "CKComputed"
            elif isinstance(v, ast.Constant):
                ck = "CKConst"
            elif isinstance(v, ast.Name) and self.env.get(v.id) == "alloc":
                ck = "CKAlloc"
            else:
                self.fail(st, "class-level value is neither property(...), a constant nor a fresh object")
            self.emit("EClassSet %s %s %s" % (cls, cstr(t.attr), ck))
            return
        if k in self.TG:
            if isinstance(v, ast.Name) and str(self.env.get(v.id, "")).startswith("getdefault:"):
                _, tg, attr = self.env[v.id].split(":")
                need(tg == self.TG[k] and attr == t.attr, "%s: getattr default stored elsewhere" % self.where)
                self.emit("EGetDefaultSet %s %s VKAlloc" % (tg, cstr(attr)))
                return
            vk = self.vkind(v, st) if v is not None else "VKImm"
            self.emit("EInstSet %s %s %s" % (self.TG[k], cstr(t.attr), vk))
            return
        if k == "table":
            self.fail(st, "assignment to an attribute of the table")
        # x.lazy.field = v  (mutation of an object the loader owns), or local_record.field = v
        self.scan(base)
        need(self.root_kind(base) in ("alloc", "pure", "imm", None) or self.mentions_atom(base),
             "%s: attribute store on an unclassified object" % self.where)
        if self.mentions_atom(base):
            # must be reached through a lazy attribute read (already emitted by scan)
            ok = any(isinstance(n, ast.Attribute) and n.attr in self.lazy for n in ast.walk(base))
            if not ok:
                self.fail(st, "store into an object reached from an atom through a non-lazy attribute")
            if isinstance(base, ast.Attribute) and base.attr in self.lazy and self.kind(base.value) in self.TG:
                # atom.lazy.field = v : what kind of object becomes reachable from the atom's data
                vk = self.vkind(v, st) if v is not None else "VKImm"
                if vk != "VKImm":
                    self.emit("ESub %s %s %s" % (self.TG[self.kind(base.value)], cstr(base.attr), vk))

    def call_stmt(self, c):
        f = c.func
        # table.properties.append('KEY')
        if isinstance(f, ast.Attribute) and f.attr == "append" and isinstance(f.value, ast.Attribute) \
                and f.value.attr == "properties" and self.kind(f.value.value) == "table":
            need(len(c.args) == 1 and isinstance(c.args[0], ast.Constant) and isinstance(c.args[0].value, str),
                 "%s: properties.append of a non-literal" % self.where)
            self.emit("EAppend %s" % cstr(c.args[0].value))
            return
        # helper(table)
        if isinstance(f, ast.Name) and f.id in self.module_funcs and len(c.args) == 1 and self.kind(c.args[0]) == "table" \
                and not c.keywords:
            self.emit("ECall %s" % cstr("%s.%s" % (self.mod, f.id)))
            self.pending_calls.append((self.mod, f.id))
            return
        # closure defined in this function, called with plain data: walk its body here
        if isinstance(f, ast.Name) and f.id in self.localfns and not c.keywords \
                and all(self.kind(a) is None for a in c.args):
            fn = self.localfns[f.id]
            for a in c.args:
                self.scan(a)
            for prm in fn.args.args:
                self.env[prm.arg] = "pure"
            saved = self.localfns.pop(f.id)     # no recursion
            self.block(strip_doc(fn.body))
            self.localfns[f.id] = saved
            return
        # setattr(obj, name, value)
        if is_call(c, "setattr", 3):
            obj = c.args[0]
            k = self.kind(obj)
            if k in self.TG or (k or "").startswith("class:"):
                self.fail(c, "setattr on an atom/class with a computed name")
            self.scan(obj)
            self.scan(c.args[2])
            need(self.mentions_atom(obj) is False or any(isinstance(n, ast.Attribute) and n.attr in self.lazy
                                                        for n in ast.walk(obj)),
                 "%s: setattr on an object reached through a non-lazy attribute" % self.where)
            return
        if isinstance(f, ast.Attribute) and f.attr in ("append", "extend", "update", "close"):
            self.scan(c)
            if isinstance(f.value, ast.Name) and str(self.env.get(f.value.id, "")).startswith("getdefault:"):
                need(f.attr == "append" and len(c.args) == 1 and not c.keywords,
                     "%s: only .append(x) is recognised on the object held by an atom" % self.where)
                _, tg, attr = self.env[f.value.id].split(":")
                self.emit("ESub %s %s %s" % (tg, cstr(attr), self.vkind(c.args[0], c)))
            return
        self.scan(c)
        if isinstance(f, ast.Name) and f.id in PURE_BUILTINS:
            return
        self.fail(c, "call statement not recognised")


def gen_inits(out, lazy):
    scripts, todo, done = [], list(INIT_FUNCS), set()
    while todo:
        mod, fname = todo.pop(0)
        if (mod, fname) in done:
            continue
        done.add((mod, fname))
        src, tree = parse_module(os.path.join(PKG, mod + ".py"))
        calls = []
        sc = Script(mod, tree, src, fname, lazy, calls)
        effects = sc.run(fdef(tree, fname))
        scripts.append(("%s.%s" % (mod, fname), effects))
        todo.extend(calls)
    out.append("Definition init_scripts : list (string * list effect) := %s." % clist([
        "(%s, [%s])" % (cstr(k), ";\n      ".join(e)) for k, e in scripts]))
    return [k for k, _ in scripts]


# ------------------------------------------------------------------ import-time calculator calls

def gen_imports(out):
    rows = []
    for fn in sorted(os.listdir(PKG)):
        if not fn.endswith(".py") or fn == "__init__.py":
            continue
        src, tree = parse_module(os.path.join(PKG, fn))
        calls = []

        def top(nodes):
            for st in nodes:
                if isinstance(st, (ast.FunctionDef, ast.ClassDef, ast.AsyncFunctionDef)):
                    continue
                if isinstance(st, ast.If):      # if __name__ == "__main__": is not executed on import
                    t = st.test
                    if isinstance(t, ast.Compare) and is_name(t.left, "__name__"):
                        continue
                for n in ast.walk(st):
                    if isinstance(n, (ast.Lambda,)):
                        continue
                    if isinstance(n, ast.Call) and isinstance(n.func, ast.Name) and n.func.id in CALCULATORS:
                        calls.append(n.func.id)
        top(tree.body)
        rows.append("(%s, [%s])" % (cstr(fn[:-3]), "; ".join(cstr(c) for c in calls)))
    out.append("Definition import_calls : list (string * list string) := %s." % clist(rows))


def gen_xray_table(out):
    """xsf.Xray: `sftable = property(_gettable)`; _gettable stores into self._table an array that it obtained
    from numpy.loadtxt in the same call (fresh per Xray object).  Anything else (a module-level cache, a helper)
    is not recognised: fail closed."""
    src, tree = parse_module(os.path.join(PKG, "xsf.py"))
    cls = [n for n in tree.body if isinstance(n, ast.ClassDef) and n.name == "Xray"]
    need(len(cls) == 1, "class Xray not found in xsf.py")
    cls = cls[0]
    get = [m for m in cls.body if isinstance(m, ast.FunctionDef) and m.name == "_gettable"]
    need(len(get) == 1 and [a.arg for a in get[0].args.args] == ["self"], "Xray._gettable not found")
    prop = [m for m in cls.body if isinstance(m, ast.Assign) and is_name(m.targets[0], "sftable")]
    need(len(prop) == 1 and isinstance(prop[0].value, ast.Call) and is_name(prop[0].value.func, "property")
         and prop[0].value.args and is_name(prop[0].value.args[0], "_gettable"), "Xray.sftable is not property(_gettable)")
    need(any(isinstance(m, ast.Assign) and is_name(m.targets[0], "_table") and isinstance(m.value, ast.Constant)
             and m.value.value is None for m in cls.body), "Xray._table class default is not None")
    fresh = set()       # local names bound to a fresh array in this call
    stores = []
    for n in ast.walk(get[0]):
        if isinstance(n, (ast.Global, ast.Nonlocal)):
            raise TranslationError("Xray._gettable declares global/nonlocal names")
        if isinstance(n, ast.Assign):
            for t in n.targets:
                if isinstance(t, ast.Name):
                    v = n.value
                    while isinstance(v, ast.Attribute) and v.attr == "T":
                        v = v.value
                    if isinstance(v, ast.Call) and isinstance(v.func, ast.Attribute) and v.func.attr == "loadtxt" \
                            and is_name(v.func.value, "numpy"):
                        fresh.add(t.id)
                elif isinstance(t, ast.Attribute):
                    need(is_name(t.value, "self") and t.attr == "_table",
                         "Xray._gettable stores into %s" % (ast.get_source_segment(src, t) or "?"))
                    stores.append(n.value)
                elif isinstance(t, ast.Subscript):
                    root = t.value
                    while isinstance(root, (ast.Subscript, ast.Attribute)):
                        root = root.value
                    need(isinstance(root, ast.Name) and root.id in fresh,
                         "Xray._gettable writes into %s, which is not the array it has just read"
                         % (ast.get_source_segment(src, t) or "?"))
        if isinstance(n, ast.AugAssign):
            root = n.target
            while isinstance(root, (ast.Subscript, ast.Attribute)):
                root = root.value
            need(isinstance(root, ast.Name) and root.id in fresh, "Xray._gettable updates something it has not just read")
    need(len(stores) == 1 and isinstance(stores[0], ast.Name) and stores[0].id in fresh,
         "Xray._gettable: self._table is not assigned the array read by numpy.loadtxt in the same call "
         "(a cached or shared array would be served to several Xray objects)")
    rets = [n for n in ast.walk(get[0]) if isinstance(n, ast.Return)]
    need(all(isinstance(r.value, ast.Attribute) and is_name(r.value.value, "self") and r.value.attr == "_table" for r in rets)
         and rets, "Xray._gettable does not return self._table")
    out.append("(* the array behind Xray.sftable: allocated by numpy.loadtxt for each Xray object on first access *)")
    out.append("Definition xray_sftable : vkind := VKAlloc.")


def gen_loader_scripts():
    out = ["From PT Require Import AttrScript."]
    gen_core(out)
    lazy, keys, eager = gen_registrations(out)
    have = gen_inits(out, lazy)
    for k in keys + eager:
        need(k in have, "loader calls %s which is not one of the translated init functions" % k)
    gen_imports(out)
    gen_xray_table(out)
    write("LoaderScripts", "periodictable/{core,__init__,mass,density,nsf,xsf,covalent_radius,crystal_structure,"
          "magnetic_ff,activation}.py", "\n".join(out))


GENERATORS = {
    "LoaderScripts": gen_loader_scripts,
}

# properties whose checks need these generated files (a failure here only breaks those)
SERVES = ['C09', 'C10']
