"""Generator for the x-ray scattering-factor tables of C05: every periodictable/xsf/*.nff file is
copied verbatim, line by line, into its own Gen/Nff_<name>.v (`list string`, header line included),
and Gen/NffIndex.v lists them by file name together with the few literals `Xray._gettable` applies
to the loaded array (rows skipped, the NaN sentinel of column 1, the eV->keV factor), taken as
source text.  Nothing is interpreted here: splitting a row into fields, reading the numbers, which
column is which and the unit conversion are done by the Gallina model (Model/Xsf.v)."""
import ast, os, re
from gen import *
import gen as _gen


NCHUNK = 8


def _method(tree, cls, name):
    cl = [n for n in tree.body if isinstance(n, ast.ClassDef) and n.name == cls]
    need(len(cl) == 1, "expected exactly one class %s" % cls)
    fn = [n for n in cl[0].body if isinstance(n, ast.FunctionDef) and n.name == name]
    need(len(fn) == 1, "expected exactly one method %s.%s" % (cls, name))
    return fn[0]


def _reader_literals(src, tree):
    """skiprows, sentinel and scale of Xray._gettable, as source text; fail closed on any other shape"""
    fn = _method(tree, "Xray", "_gettable")
    seg = lambda n: ast.get_source_segment(src, n)
    skip, sentinel, scale, suffix = [], [], [], []
    for n in ast.walk(fn):
        if isinstance(n, ast.Call) and seg(n.func) == "numpy.loadtxt":
            need(len(n.args) == 1 and seg(n.args[0]) == "filename", "loadtxt is not called on filename")
            kws = {k.arg: k.value for k in n.keywords}
            need(set(kws) == {"skiprows"}, "loadtxt keywords are not exactly skiprows")
            skip.append(num_text(src, kws["skiprows"]))
        if isinstance(n, ast.Assign) and len(n.targets) == 1 and isinstance(n.targets[0], ast.Name) \
                and n.targets[0].id == "xsf":
            need(seg(n.value).replace(" ", "").endswith(").T"), "the loaded array is not transposed")
        if isinstance(n, ast.Assign) and len(n.targets) == 1 and isinstance(n.targets[0], ast.Subscript) \
                and seg(n.targets[0].value) == "xsf":
            t = seg(n.targets[0]).replace(" ", "")
            m = re.fullmatch(r"xsf\[1,xsf\[1\]==(-?[0-9.]+)\]", t)
            need(m is not None, "unrecognised sentinel assignment %s" % t)
            need(seg(n.value) in ("numpy.nan", "nan"), "sentinel is not mapped to NaN")
            sentinel.append(m.group(1))
        if isinstance(n, ast.AugAssign):
            need(seg(n.target).replace(" ", "") == "xsf[0]" and isinstance(n.op, ast.Mult),
                 "unrecognised in-place update %s" % seg(n))
            scale.append(num_text(src, n.value))
        if isinstance(n, ast.Constant) and isinstance(n.value, str) and n.value.startswith("."):
            suffix.append(n.value)
    need(len(skip) == 1 and len(sentinel) == 1 and len(scale) == 1 and suffix == [".nff"],
         "Xray._gettable no longer has the shape loadtxt(skiprows)/sentinel/scale/.nff")
    # the file is named after the lower-cased symbol of the atom's element (self.element, possibly after
    # walking .element down to the Element): which symbol that is, is decided by the model and the tie
    need(re.search(r"\.symbol\.lower\(\)\s*\+\s*[\"']\.nff[\"']", seg(fn)) is not None,
         "the table file is no longer named <symbol>.lower() + '.nff'")
    return skip[0], sentinel[0], scale[0]


def gen_nff():
    src, tree = parse_module(os.path.join(PKG, "xsf.py"))
    skip, sentinel, scale = _reader_literals(src, tree)
    d = os.path.join(PKG, "xsf")
    names = sorted(f for f in os.listdir(d) if f.endswith(".nff"))
    need(len(names) >= 1, "no .nff files")
    mods = []
    for fn in names:
        stem = fn[:-4]
        need(re.fullmatch(r"[a-z]{1,3}", stem) is not None, "odd table file name %r" % fn)
        with open(os.path.join(d, fn), "rb") as f:
            raw = f.read()
        try:
            text = raw.decode("ascii")
        except UnicodeDecodeError:
            raise TranslationError("non-ascii byte in %s" % fn)
        lines = text.split("\n")
        if lines and lines[-1] == "":
            lines.pop()
        # universal newlines, as open() in text mode gives them to loadtxt
        lines = [l[:-1] if l.endswith("\r") else l for l in lines]
        need(all("\r" not in l for l in lines), "stray carriage return in %s" % fn)
        need(len(lines) >= 2, "%s is too short" % fn)
        mod = "Nff_" + stem
        write(mod, "periodictable/xsf/" + fn, string_list_def("nff_" + stem, lines))
        mods.append((fn, mod, "nff_" + stem))
    # remove tables whose file disappeared
    keep = set(m for _, m, _ in mods)
    for f in os.listdir(_gen.OUT):
        if f.startswith("Nff_") and f.endswith(".v") and f[:-2] not in keep:
            os.remove(os.path.join(_gen.OUT, f))
    # the index in NCHUNK parts, so that the sweeps over the tables compile in parallel
    entries = ["(%s, %s)" % (cstr(fn), v) for fn, _, v in mods]
    per = (len(entries) + NCHUNK - 1) // NCHUNK
    parts = []
    for k in range(NCHUNK):
        parts.append("Definition nff_files_%d : list (string * list string) := %s."
                     % (k, clist(entries[k * per:(k + 1) * per])))
    body = "\n".join([
        "From PT.Gen Require Import %s." % " ".join(m for _, m, _ in mods),
    ] + parts + [
        "Definition nff_files : list (string * list string) := (%s)%%list."
        % " ++ ".join("nff_files_%d" % k for k in range(NCHUNK)),
        "Definition nff_skiprows_text : string := %s." % cstr(skip),
        "Definition nff_sentinel_text : string := %s." % cstr(sentinel),
        "Definition nff_scale_text : string := %s." % cstr(scale),
    ])
    write("NffIndex", "periodictable/xsf/*.nff, periodictable/xsf.py (Xray._gettable)", body)


GENERATORS = {
    "NffIndex": gen_nff,
}

# properties whose checks need these generated files (a failure here only breaks those)
SERVES = ['C05']
