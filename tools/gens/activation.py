"""Generator for C14/C15: periodictable/activation.dat and the column layout of activation.init.

The data file is copied verbatim, line by line, as `list string` (tabs included).  From
activation.py only the four literal lists that say which column is what (COLUMN_NAMES, INT_COLUMNS,
BOOL_COLUMNS, FLOAT_COLUMNS) are emitted, so that the Gallina reader (Model/Act.v) finds a field by
the name the source gives it; splitting on tabs, un-quoting, blank -> 0, int()/float() are done by
the Gallina reader, not here.  Fail closed: the shape of `init` that the reader transcribes (open
activation.dat, split on a tab, skip '' / 'xx') is recognised textually and anything else aborts."""
import ast, os
from gen import *


def _func(tree, name):
    found = [n for n in tree.body if isinstance(n, ast.FunctionDef) and n.name == name]
    need(len(found) == 1, "expected exactly one function %s" % name)
    return found[0]


def _int_list(tree, name):
    v = ast.literal_eval(top_assign(tree, name))
    need(isinstance(v, list) and all(isinstance(i, int) and not isinstance(i, bool) and i >= 0 for i in v),
         "%s is not a list of column numbers" % name)
    return v


def gen_activation():
    path = os.path.join(PKG, "activation.py")
    src, tree = parse_module(path)
    names = ast.literal_eval(top_assign(tree, "COLUMN_NAMES"))
    need(isinstance(names, list) and all(isinstance(s, str) for s in names), "COLUMN_NAMES is not a list of strings")
    need(len(set(names)) == len(names), "duplicate column name")
    ints, bools, floats = (_int_list(tree, n) for n in ("INT_COLUMNS", "BOOL_COLUMNS", "FLOAT_COLUMNS"))
    need(all(c < len(names) for c in ints + bools + floats), "typed column beyond COLUMN_NAMES")
    init = ast.get_source_segment(src, _func(tree, "init"))
    for frag in ("'activation.dat'", "row.split('\\t')", "columns[0].strip() in ('', 'xx')",
                 "c[1:-1] if c.startswith('\"') else c", "columns[c] = int(columns[c])",
                 "columns[c] = (columns[c] == 'y')", "columns[c] = float(columns[c]) if columns[c].strip() else 0.",
                 "dict(zip(COLUMN_NAMES, columns))", "table[kw['Z']][kw['A']]"):
        need(frag in init, "activation.init no longer contains %r: the reader model must be revisited" % frag)
    # activity(), single-capture branch: which of the two forms the source has (the model follows it;
    # anything else fails closed)
    body_act = ast.get_source_segment(src, _func(tree, "activity")).replace(" ", "")
    for frag in ("U=flux*initialXS*3600*1e-24*exposure", "V=(env.fluence*effectiveXS*3600*1e-24+lam)*exposure",
                 "W=lam/(lam-flux*initialXS*3600*1e-24+env.fluence*effectiveXS*3600*1e-24)",
                 "activity=root*precision_correction", "ifactivity<0:", "raiseRuntimeError(msg)",
                 "root=flux*initialXS*1e-24*mass/isotope.isotope*1.6278e19", "lam=LN2/ai.Thalf_hrs",
                 "result[ai]=[activity*exp(-lam*Ti)forTiinrest_times]",
                 "ifai.fastandenv.fast_ratio==0:", "flux=env.fluence/env.fast_ratioifai.fastelseenv.fluence",
                 "initialXS=ai.thermalXS+env.epithermal_reduction_factor*ai.resonance"):
        need(frag in body_act, "activity() no longer contains %r: the model must be revisited" % frag)
    old_form = ("ifabs(U)<1e-10andabs(V)<1e-10:" in body_act and "precision_correction=W*(V-U+(V+U)/2)" in body_act
                and "precision_correction=W*(exp(-U)-exp(-V))" in body_act)
    new_form = ("x=(lam-flux*initialXS*3600*1e-24+env.fluence*effectiveXS*3600*1e-24)*exposure" in body_act
                and "ifx>=0:" in body_act and "precision_correction=W*exp(-U)*-expm1(-x)" in body_act
                and "precision_correction=W*exp(-V)*expm1(x)" in body_act)
    need(old_form != new_form, "activity(): unrecognised form of the burn-up branch")
    need(("abs(U)<1e-10" in body_act) == old_form and ("expm1(x)" in body_act) == new_form,
         "activity(): the burn-up branch mixes the two known forms")
    msg_g = 'msg="activity%glessthanzerofor%g"%(activity,isotope)' in body_act
    msg_s = 'msg="activity%glessthanzerofor%s"%(activity,isotope)' in body_act
    need(msg_g != msg_s, "activity(): unrecognised error message")
    has_test = old_form
    # Sample.decay_time: the two lines whose form the model follows (fail closed on anything else)
    cls = [n for n in tree.body if isinstance(n, ast.ClassDef) and n.name == "Sample"]
    need(len(cls) == 1, "expected exactly one class Sample")
    dts = [n for n in cls[0].body if isinstance(n, ast.FunctionDef) and n.name == "decay_time"]
    need(len(dts) == 1, "expected exactly one Sample.decay_time")
    dt = ast.get_source_segment(src, dts[0]).replace(" ", "")
    for frag in ("f=lambdat:sum(Ia*exp(-La*(t-To))forIa,Laindata)-target", "min(enumerate(self.rest_times),key=lambdax:x[1])",
                 "initial=max(-log(target/Ia)/La+ToforIa,Laindata)", "find_root(initial,f,df)",
                 "percent_error=100*abs(ft)/target", "ifpercent_error>0.1:", "raiseRuntimeError(msg)"):
        need(frag in dt, "Sample.decay_time no longer contains %r: the model must be revisited" % frag)
    early_old, early_new = "iff(0)<target:return0" in dt.replace("\n", ""), "iff(0)<=0:return0" in dt.replace("\n", "")
    need(early_old != early_new, "Sample.decay_time: unrecognised early-exit test")
    df_old = "df=lambdat:sum(La*Ia*(To-1)*exp(-La*(t-To))forIa,Laindata)" in dt
    df_new = "df=lambdat:-sum(La*Ia*exp(-La*(t-To))forIa,Laindata)" in dt
    need(df_old != df_new, "Sample.decay_time: unrecognised derivative")
    fr = ast.get_source_segment(src, _func(tree, "find_root")).replace(" ", "")
    for frag in ("deffind_root(x,f,df,max=20,tol=1e-10):", "fx=f(x)", "for_inrange(max):", "ifabs(f(x))<tol:", "x-=fx/df(x)", "returnx,fx"):
        need(frag in fr, "find_root no longer contains %r: the model must be revisited" % frag)
    dat = os.path.join(PKG, "activation.dat")
    with open(dat, "rb") as f:
        raw = f.read()
    need(b"\r" not in raw, "carriage return in activation.dat")
    text = raw.decode("ascii")  # fails closed on non-ASCII
    lines = text.split("\n")
    if lines and lines[-1] == "":
        lines.pop()
    need(len(lines) > 100, "activation.dat is nearly empty")
    body = "\n".join([
        string_list_def("activation_dat", lines),
        "Definition act_column_names : list string := [%s]." % "; ".join(cstr(s) for s in names),
        "Definition act_int_columns : list Z := [%s]%%Z." % "; ".join(str(i) for i in ints),
        "Definition act_bool_columns : list Z := [%s]%%Z." % "; ".join(str(i) for i in bools),
        "Definition act_float_columns : list Z := [%s]%%Z." % "; ".join(str(i) for i in floats),
        "Definition act_small_branch : bool := %s." % ("true" if old_form else "false"),
        "Definition act_expm1_form : bool := %s." % ("true" if new_form else "false"),
        "Definition act_error_formats_isotope_with_g : bool := %s." % ("true" if msg_g else "false"),
        "Definition dt_early_exit_vs_target : bool := %s." % ("true" if early_old else "false"),
        "Definition dt_df_rest_factor : bool := %s." % ("true" if df_old else "false"),
    ])
    write("ActivationDat", "periodictable/activation.dat, periodictable/activation.py", body)


GENERATORS = {"ActivationDat": gen_activation}

# properties whose checks need these generated files (a failure here only breaks those)
SERVES = ['C14', 'C15']
