"""Generator for fasta.py (C18): the `_("A", 91.5, "C3H4H[1]NO", "alanine")` rows of the code tables,
the member lists of the averaged ambiguity codes, CODE_TABLES and the extension rules of
_guess_type_from_filename.

Nothing is interpreted here: formula strings, the trailing charge sign, the averaging, the meaning of
each column are all handled by the Gallina model (Model/Fasta.v).  Numbers are kept as source text.
The translator only recognises the statement shapes fasta.py uses today and aborts otherwise."""
import ast, os
from gen import *


def _is_call(node, fname):
    return isinstance(node, ast.Call) and isinstance(node.func, ast.Name) and node.func.id == fname


def _helper_before(tree, stmt):
    """argument names of the last top-level `def _` that precedes the statement"""
    last = None
    for n in tree.body:
        if n is stmt:
            break
        if isinstance(n, ast.FunctionDef) and n.name == "_":
            last = n
    need(last is not None, "no row constructor `def _` before line %d" % stmt.lineno)
    a = last.args
    need(not (a.vararg or a.kwarg or a.kwonlyargs or a.defaults or getattr(a, "posonlyargs", [])),
         "row constructor `_` has an unexpected signature")
    return [x.arg for x in a.args]


def _assign_stmt(tree, name):
    found = [n for n in tree.body if isinstance(n, ast.Assign) and len(n.targets) == 1
             and isinstance(n.targets[0], ast.Name) and n.targets[0].id == name]
    need(len(found) == 1, "expected exactly one top-level assignment of %s, found %d" % (name, len(found)))
    return found[0]


def _rows_of_dict(src, tree, name, argnames):
    """NAME = dict(( _(...), _(...), ... )) -> list of rows, each a dict argname -> Coq string literal"""
    st = _assign_stmt(tree, name)
    got = _helper_before(tree, st)
    need(got == argnames, "%s: row constructor takes %s, expected %s" % (name, got, argnames))
    v = st.value
    need(_is_call(v, "dict") and len(v.args) == 1 and not v.keywords and isinstance(v.args[0], ast.Tuple),
         "%s is not dict((...))" % name)
    rows = []
    for e in v.args[0].elts:
        need(_is_call(e, "_") and not e.keywords and len(e.args) == len(argnames), "%s: odd row" % name)
        row = {}
        for an, arg in zip(argnames, e.args):
            if an == "V":
                row[an] = cstr(num_text(src, arg))
            else:
                need(isinstance(arg, ast.Constant) and isinstance(arg.value, str), "%s: %s is not a string" % (name, an))
                row[an] = cstr(arg.value)
        rows.append(row)
    need(rows, "%s is empty" % name)
    return rows


def _fmt_rows(defname, rows, cols):
    ty = " * ".join("string" for _ in cols)
    return "Definition %s : list (%s) := %s." % (
        defname, ty, clist(["(" + ", ".join(r[c] for c in cols) + ")" for r in rows]))


def gen_fasta():
    path = os.path.join(PKG, "fasta.py")
    src, tree = parse_module(path)
    out = []

    # ---- amino acids: code, volume, formula, name
    aa = _rows_of_dict(src, tree, "AMINO_ACID_CODES", ["code", "V", "formula", "name"])
    out.append(_fmt_rows("aa_rows", aa, ["code", "V", "formula", "name"]))

    # ---- _set_amino_acid_average('B', 'DN') ... in statement order
    avgs = []
    for n in tree.body:
        if isinstance(n, ast.Expr) and _is_call(n.value, "_set_amino_acid_average"):
            c = n.value
            need(len(c.args) == 2 and all(isinstance(a, ast.Constant) and isinstance(a.value, str) for a in c.args),
                 "_set_amino_acid_average: positional arguments")
            name = "None"
            for kw in c.keywords:
                need(kw.arg == "name" and isinstance(kw.value, ast.Constant) and isinstance(kw.value.value, str),
                     "_set_amino_acid_average: keyword")
                name = "(Some %s)" % cstr(kw.value.value)
            need(n.lineno > _assign_stmt(tree, "AMINO_ACID_CODES").lineno, "average set before the table exists")
            avgs.append("(%s, %s, %s)" % (cstr(c.args[0].value), cstr(c.args[1].value), name))
    # no other statement may write into the amino-acid table
    for n in ast.walk(tree):
        if isinstance(n, ast.Subscript) and isinstance(n.ctx, ast.Store) and isinstance(n.value, ast.Name):
            need(n.value.id not in ("RNA_CODES", "DNA_CODES", "RNA_BASES", "DNA_BASES", "CODE_TABLES"),
                 "unexpected item assignment into %s" % n.value.id)
    f = [n for n in tree.body if isinstance(n, ast.FunctionDef) and n.name == "_set_amino_acid_average"]
    need(len(f) == 1 and [a.arg for a in f[0].args.args] == ["target", "codes", "name"],
         "_set_amino_acid_average signature")
    out.append("Definition aa_averages : list (string * string * option string) := %s." % clist(avgs))

    # ---- nucleic acid bases: code, formula, volume, name
    for nm, dn in (("RNA_BASES", "rna_bases"), ("DNA_BASES", "dna_bases")):
        rows = _rows_of_dict(src, tree, nm, ["code", "formula", "V", "name"])
        out.append(_fmt_rows(dn, rows, ["code", "formula", "V", "name"]))

    # ---- RNA_CODES,DNA_CODES = [dict(v) for v in zip(_("A", "A", "adenosine"), ...)]
    st = [n for n in tree.body if isinstance(n, ast.Assign) and len(n.targets) == 1
          and isinstance(n.targets[0], ast.Tuple)
          and [getattr(e, "id", None) for e in n.targets[0].elts] == ["RNA_CODES", "DNA_CODES"]]
    need(len(st) == 1, "RNA_CODES,DNA_CODES assignment not found")
    st = st[0]
    need(_helper_before(tree, st) == ["code", "bases", "name"], "nucleic code constructor signature")
    v = st.value
    need(isinstance(v, ast.ListComp) and _is_call(v.elt, "dict") and len(v.generators) == 1
         and _is_call(v.generators[0].iter, "zip") and not v.generators[0].ifs, "RNA_CODES,DNA_CODES shape")
    codes = []
    for e in v.generators[0].iter.args:
        need(_is_call(e, "_") and len(e.args) == 3 and not e.keywords
             and all(isinstance(a, ast.Constant) and isinstance(a.value, str) for a in e.args), "nucleic code row")
        codes.append("(%s, %s, %s)" % tuple(cstr(a.value) for a in e.args))
    need(codes, "no nucleic codes")
    out.append("Definition nucleic_codes : list (string * string * string) := %s." % clist(codes))

    # ---- other molecule tables: formula, volume, name
    others = []
    for nm in ("NUCLEIC_ACID_COMPONENTS", "CARBOHYDRATE_RESIDUES", "LIPIDS"):
        for r in _rows_of_dict(src, tree, nm, ["formula", "V", "name"]):
            others.append("(%s, %s, %s, %s)" % (cstr(nm), r["formula"], r["V"], r["name"]))
    out.append("Definition other_molecules : list (string * string * string * string) := %s." % clist(others))

    # ---- CODE_TABLES
    ct = top_assign(tree, "CODE_TABLES")
    need(isinstance(ct, ast.Dict), "CODE_TABLES is not a dict literal")
    items = []
    for k, val in zip(ct.keys, ct.values):
        need(isinstance(k, ast.Constant) and isinstance(k.value, str) and isinstance(val, ast.Name), "CODE_TABLES entry")
        need(val.id in ("AMINO_ACID_CODES", "DNA_CODES", "RNA_CODES"), "CODE_TABLES names an unknown table")
        items.append("(%s, %s)" % (cstr(k.value), cstr(val.id)))
    out.append("Definition code_tables : list (string * string) := %s." % clist(items))

    # ---- _guess_type_from_filename: if type is None: if filename.endswith(ext): type = t elif ... else: type = d
    g = [n for n in tree.body if isinstance(n, ast.FunctionDef) and n.name == "_guess_type_from_filename"]
    need(len(g) == 1 and [a.arg for a in g[0].args.args] == ["filename", "type"], "_guess_type_from_filename signature")
    body = [s for s in g[0].body if not (isinstance(s, ast.Expr) and isinstance(s.value, ast.Constant))]
    need(len(body) == 2 and isinstance(body[0], ast.If) and isinstance(body[1], ast.Return)
         and isinstance(body[1].value, ast.Name) and body[1].value.id == "type", "_guess_type_from_filename body")
    outer = body[0]
    need(ast.get_source_segment(src, outer.test) == "type is None" and not outer.orelse and len(outer.body) == 1,
         "_guess_type_from_filename: outer test")

    def assigned(stmts):
        need(len(stmts) == 1 and isinstance(stmts[0], ast.Assign) and len(stmts[0].targets) == 1
             and isinstance(stmts[0].targets[0], ast.Name) and stmts[0].targets[0].id == "type"
             and isinstance(stmts[0].value, ast.Constant) and isinstance(stmts[0].value.value, str),
             "_guess_type_from_filename: branch is not `type = '...'`")
        return stmts[0].value.value

    rules, node, default = [], outer.body[0], None
    while True:
        need(isinstance(node, ast.If), "_guess_type_from_filename: chain")
        t = node.test
        need(isinstance(t, ast.Call) and isinstance(t.func, ast.Attribute) and t.func.attr == "endswith"
             and isinstance(t.func.value, ast.Name) and t.func.value.id == "filename" and len(t.args) == 1
             and isinstance(t.args[0], ast.Constant) and isinstance(t.args[0].value, str) and not t.keywords,
             "_guess_type_from_filename: test is not filename.endswith('...')")
        rules.append("(%s, %s)" % (cstr(t.args[0].value), cstr(assigned(node.body))))
        if len(node.orelse) == 1 and isinstance(node.orelse[0], ast.If):
            node = node.orelse[0]
        else:
            default = assigned(node.orelse)
            break
    out.append("Definition guess_rules : list (string * string) := %s." % clist(rules))
    out.append("Definition guess_default : string := %s." % cstr(default))

    write("FastaTables", "periodictable/fasta.py", "\n".join(out))


GENERATORS = {"FastaTables": gen_fasta}

# properties whose checks need these generated files (a failure here only breaks those)
SERVES = ['C18', 'C16']
